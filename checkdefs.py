"""Static description of flavours and per-property checks (used by ./check and to generate MANIFEST.json)."""

ASAN_TARGET = "x86_64-unknown-linux-gnu"

FLAVOURS = {
    # arithmetic slips and debug assertions become panics
    "checked": {"profile": "checked"},
    # what a user ships: wrapping arithmetic, no debug assertions
    "release": {"profile": "release"},
}

COMMON_ASSUME = [
    "the harness's reference model (refparse / msg / ops) states the policy correctly; it is cross-checked against by-construction cases",
    "rustc/LLVM, the standard library and the crates dnssector depends on behave as documented",
    "coverage is what the seeded generators reach; a green run means 'held on these executions', not 'verified'",
]

BOTH = {"quick": ["checked", "release"], "thorough": ["checked", "release"]}

CHECKS = {
    "C01": {
        "title": "parsing untrusted bytes is total",
        "flavours": BOTH,
        "level": "exploration",
        "technique": "runtime monitoring: panic/abort/step-budget monitors over hostile parse workloads (checked + release builds)",
        "rule": "inputs = grammar-derived valid packets, 22 structure-aware mutations of them, 46 boundary families (both sides), random bytes behind a plausible header, tiny buffers for the name checkers; distinct = distinct (library verdict, reference clause / name sub-clause or accepted record-type set, deepest pointer chain, length bucket) among inputs of >= 12 bytes",
        "floors": {"quick": {"evaluations": 500000, "parse_ok": 50000, "parse_err": 50000, "primitive_calls": 1000000},
                   "thorough": {"evaluations": 5000000, "parse_ok": 500000, "parse_err": 500000}},
        "assumptions": COMMON_ASSUME + ["memory safety of safe Rust: an out-of-bounds read surfaces as an index panic, which the monitor catches",
                                        "stack overflow / abort are observed only if some generated input triggers them (attributed through the per-worker case slot)"],
        "design_ref": "DESIGN.md §5 C01",
        "level_text": "Every generated input is parsed by the real parser under catch_unwind with a logical step budget armed through the cfg hook, in worker processes whose abnormal exits are attributed to a case; public name checkers and cursor primitives are driven with every small offset and hostile offsets. Both an overflow-checking and a release-like build are run. Exploration is the honest level: the input space is unbounded.",
    },
    "C02": {
        "title": "the parser accepts exactly the well-formed packets",
        "flavours": BOTH,
        "level": "exploration",
        "technique": "runtime monitoring: differential oracle (independent reference recogniser + verdicts known by construction) over boundary and hostile inputs, both directions",
        "rule": "same generators as C01 weighted towards the 46 boundary families (last legal / first illegal instance of every clause); distinct = distinct (reference verdict, violated clause and name sub-clause or accepted shape, generator family)",
        "floors": {"quick": {"evaluations": 500000, "wellformed": 100000},
                   "thorough": {"evaluations": 5000000, "wellformed": 1000000}},
        "assumptions": COMMON_ASSUME + ["only verdicts are compared, never error kinds or messages"],
        "design_ref": "DESIGN.md §5 C02",
        "level_text": "The library's Ok/Err is compared with an independent executable statement of the acceptance policy on every input, in both directions; boundary cases additionally carry a verdict known by construction that must agree with both. A disagreement between construction and reference makes the run inconclusive (harness defect), never a violation.",
    },
    "C03": {
        "title": "accepted packets read back faithfully via the iterators",
        "flavours": BOTH,
        "level": "exploration",
        "technique": "runtime monitoring: reference-decoder oracle on every iterator stop and accessor, panic/budget monitors, no-mutation monitor",
        "rule": "G-valid packets (message known by construction: any counts, pointer layouts incl. chains to 16, pointers into rdata names / opaque rdata / the header, all record types, OPT absent/first/middle/last) plus accepted mutants; every walk (question, answer, authority, additional with OPT skipped and included, EDNS options) compared stop by stop; distinct = distinct (records per section bucket, OPT position, type set, deepest chain, pointer-into-header)",
        "floors": {"quick": {"accepted": 200000, "accessor_comparisons": 5000000, "opt:Middle": 1000, "opt:First": 1000, "pointer_into_header": 1000},
                   "thorough": {"accepted": 2000000}},
        "assumptions": COMMON_ASSUME,
        "design_ref": "DESIGN.md §5 C03",
        "level_text": "Every accepted packet is walked with every iterator flavour and every accessor result is compared with an independent decoding of the bytes; panics, step-budget trips and byte changes are violations.",
    },
    "C04": {
        "title": "header, question and EDNS summaries equal what the bytes say",
        "flavours": BOTH,
        "level": "exploration",
        "technique": "runtime monitoring: getter results vs values decoded independently from the bytes; exhaustive sweep of the 16-bit flag word",
        "rule": "all 65536 flag words x {no OPT, OPT+DO, OPT without DO, OPT with odd fixed fields} on a fixed body (exhaustive), plus G-valid packets with arbitrary OPT fields and question names (incl. via header pointers); question getters called in 6 different orders (cached and uncached paths); distinct = (flag word, variant) for the sweep and (question shape, OPT position, QR, header-pointer, call order) otherwise",
        "exhaustive": {"quick": False, "thorough": False},
        "floors": {"quick": {"accepted": 500000, "getter_comparisons": 5000000, "with_opt": 50000, "pointer_into_header": 1000},
                   "thorough": {"accepted": 2000000}},
        "assumptions": COMMON_ASSUME,
        "design_ref": "DESIGN.md §5 C04",
        "level_text": "Every getter is compared with the value computed from the raw bytes by the model; the flag-word dimension is swept exhaustively, the rest is explored.",
    },
    "C05": {
        "title": "decompression keeps the message; output pointer-free, valid, stable",
        "flavours": BOTH,
        "level": "exploration",
        "technique": "runtime monitoring: output compared byte-for-byte with the canonical pointer-free encoding of the independently decoded message; idempotence and offset-translation oracles",
        "rule": "G-valid packets with all name-bearing types in all sections and every pointer layout, plus accepted mutants; for each, uncompress must equal encode_literal(decode(x)), be accepted, be a fixed point, and every record-boundary offset (start of each record, end of packet) must translate to the same boundary; distinct = distinct packet shapes (as C03)",
        "floors": {"quick": {"uncompressed": 150000, "offset_translations": 500000, "idempotent": 150000, "pointer_into_opaque_rdata": 500, "chain>=8": 500},
                   "thorough": {"uncompressed": 1500000}},
        "assumptions": COMMON_ASSUME,
        "design_ref": "DESIGN.md §5 C05",
        "level_text": "The only admissible output is the canonical pointer-free encoding of the decoded message, so the oracle is byte-exact; held on the explored packets only.",
    },
    "C06": {
        "title": "compression keeps the message, stays valid, never grows",
        "flavours": BOTH,
        "level": "exploration",
        "technique": "runtime monitoring: decoded-message equality (names up to case, question exact), validity, size and round-trip oracles over random and stress families",
        "rule": "pointer-free G-valid packets over small label alphabets, outputs of decompression, and 10 stress families (nesting deeper than 16, more than 32 distinct suffixes, suffixes longer than 127 bytes, names beyond offset 16383, mixed-case duplicates, OPT first/middle, a name shortened before a later suffix is first remembered, all rdata name types, many identical names); distinct = distinct packet shapes / (family, size buckets)",
        "floors": {"quick": {"compressed": 100000, "shrunk": 50000, "roundtrip_ok": 100000, "stress:nested-suffixes>16": 500, "stress:distinct-suffixes>32": 500, "stress:suffix>127": 500, "stress:names-beyond-16383": 500, "stress:opt-middle": 500},
                   "thorough": {"compressed": 1000000}},
        "assumptions": COMMON_ASSUME,
        "design_ref": "DESIGN.md §5 C06",
        "level_text": "Compression has many correct outputs, so the oracle checks the stated relation (same message up to case, accepted, not longer, round-trips) on every explored input, with stress families for each clause of the quantifier.",
    },
    "C07": {
        "title": "renaming rewrites exactly the matching names",
        "flavours": BOTH,
        "level": "exploration",
        "technique": "runtime monitoring: abstract rename semantics applied to the decoded message vs decoding of the library's output; error/atomicity oracle on the packet-level wrapper",
        "rule": "G-valid packets over small alphabets x (target, source, exact|suffix) drawn from the packet's own names: whole names, suffixes at every depth, partial-label near-misses, case variants, different label splits, absent names, identity, targets growing names past 255; plus the C06 stress messages; distinct = (OPT position, name-bearing type set, compressed?, case bucket)",
        "floors": {"quick": {"renamed": 100000, "with_matches": 30000, "expected_overflow": 300, "identity_renames": 5000, "wrapper_calls": 100000},
                   "thorough": {"renamed": 1000000}},
        "assumptions": COMMON_ASSUME + ["source and target are well-formed pointer-free non-root names under the parser's character policy, as the property requires"],
        "design_ref": "DESIGN.md §5 C07",
        "level_text": "The expected message is computed by a 30-line abstract rename on the decoded input; the library's output must decode to it (names up to case), be accepted, fail exactly when a name would exceed 255, and identity renames must be no-ops.",
    },
    "C12": {
        "title": "header setters touch only their own bits; getters return what was set",
        "flavours": BOTH,
        "level": "exploration",
        "technique": "runtime monitoring: pure bit-model oracle on the 12 header bytes before/after each setter, exhaustive over the 16-bit flag word and the significant argument bits",
        "rule": "all 65536 flag words x all 256 arguments of set_opcode and set_rcode x both set_response values (exhaustive); all words x set_flags with the 32 single-bit arguments, 8 extreme arguments and 512 random ones (quick) or all 65536 low halves with a random ignored upper half (thorough, exhaustive over the significant bits); all 65536 low halves x 64 words; all 65536 ids x 64 header words; random setter sequences; distinct = distinct (setter, initial flag word) pairs, counted",
        "exhaustive": {"quick": False, "thorough": True},
        "floors": {"quick": {"evaluations": 60000000}, "thorough": {"evaluations": 4000000000}},
        "assumptions": COMMON_ASSUME + ["header state is installed through packet_mut() on an accepted packet object; the setters only read the 12 header bytes"],
        "design_ref": "DESIGN.md §5 C12",
        "level_text": "The specification is a bit formula, so the oracle is exact; the 16-bit flag word is swept completely against every 8-bit argument, and (thorough tier) against every significant set_flags argument; only the ignored upper half of the set_flags argument is sampled.",
    },
    "C13": {
        "title": "record text synthesises to the right wire record; bad text is an error",
        "flavours": BOTH,
        "level": "exploration",
        "technique": "runtime monitoring: grammar-derived (text, expected wire) pairs compared byte-for-byte, insertion re-decoded by the reference, damaged texts must fail, arbitrary strings under the panic monitor with a well-formedness oracle on anything returned",
        "rule": "oracle A: texts of all nine types with boundary values (TTL 0 / 2^32-1, 62-byte labels, 253-byte names, 254/255/256/510/511/3825-byte TXT, decimal escapes, preference 0/65535, 1..64-byte digests), random horizontal whitespace and keyword case, each also inserted into answer/authority/additional of a G-valid packet; oracle B: 14 kinds of systematic damage; oracle C: random unicode, grammar-alphabet noise and mutated texts; distinct = (oracle, type or damage kind, owner depth, size and TTL class)",
        "floors": {"quick": {"valid_accepted": 100000, "inserted": 100000, "damaged_rejected": 50000, "arbitrary_accepted": 5000, "arbitrary_rejected": 200000},
                   "thorough": {"valid_accepted": 1000000}},
        "assumptions": COMMON_ASSUME + ["texts whose status the property leaves open (empty TXT, TXT > 3825 bytes, all-numeric owner names, 63-byte labels) are generated only under oracle C"],
        "design_ref": "DESIGN.md §5 C13",
        "level_text": "Expected bytes come from an independent RFC 1035 encoder driven by the same generator that writes the text, so every supported type is compared byte-for-byte; invalid and arbitrary inputs are explored, not enumerated.",
    },
    "C14": {
        "title": "host names convert between text and wire form without loss",
        "flavours": BOTH,
        "level": "exploration",
        "technique": "runtime monitoring: reference splitter with must-accept / must-reject / either classes; output re-decoded and compared label by label; read-back through a record",
        "rule": "every string of length <= 6 (quick) or <= 8 (thorough) over {a,B,0,-,_,.,\\,0x01} with and without a default zone (exhaustive), a grid of label lengths 61..64 x wire totals 250..256 x 4 zones x trailing dot, and random long/odd names; distinct = (family, reference class, label count, zone, absolute?, length bucket)",
        "exhaustive": {"quick": False, "thorough": False},
        "floors": {"quick": {"must-accept": 100000, "must-reject": 100000, "either": 50000, "round_trips": 100000},
                   "thorough": {"must-accept": 1000000}},
        "assumptions": COMMON_ASSUME + ["names the statement leaves open (63-byte labels, wire 254..255, empty string, bytes >= 0x80, characters outside LDH/underscore) may go either way; if accepted their output is still checked"],
        "design_ref": "DESIGN.md §5 C14",
        "level_text": "Short names over a small alphabet that includes the dot are enumerated completely; boundary lengths are covered by a grid; everything else is sampled.",
    },
    "C18": {
        "title": "validation work is linear in the packet size",
        "flavours": {"quick": ["release"], "thorough": ["release", "checked"]},
        "level": "exploration",
        "technique": "runtime monitoring: cfg-guarded step counter read across parse; fixed linear bound plus fitted growth exponent on adversarial families",
        "rule": "8 adversarial families (16-hop chains through 127 one-byte labels for NS and SOA, shared maximal names, dense option lists, header-resident names, literal 1-byte-label names, DNAME) at 7 sizes from 1 KiB to 64 KiB plus random sizes and damaged variants, plus the C01 parse workload; distinct = distinct (family, verdict, steps-per-byte bucket, length bucket)",
        "floors": {"quick": {"evaluations": 100000, "exponent_fits": 8, "accepted": 20000, "rejected": 20000},
                   "thorough": {"evaluations": 1000000, "exponent_fits": 8}},
        "assumptions": COMMON_ASSUME + ["the counter sees the loops that carry a tick (all wire-walking loops present today; see MANIFEST.hooks)",
                                        "bound: steps <= 32*len + 1024, derived from <=128 labels + 16 pointers per name walk and 14 bytes per densest record; scale-free guard: fitted exponent <= 1.15"],
        "design_ref": "DESIGN.md §5 C18",
        "level_text": "Work is observed directly (step counter delta across parse, split by site), not inferred from wall-clock. Every input of the hostile workload and of eight families built to maximise pointer following must stay under the linear bound, and the fitted exponent per family must stay near 1.",
    },
}

NOT_APPLICABLE = {}

HOOK_COMMITS = ["230a15f", "1e334ef"]

ENGINES = [
    {"name": "dnsmon", "path": "/verif/harness", "serves_properties": sorted(CHECKS.keys()),
     "kind_free_text": "Rust harness crate path-depending on /repo: reference model, workload generators, monitors; sharded worker processes driven by /verif/check"},
]

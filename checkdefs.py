"""Static description of flavours and per-property checks (used by ./check and to generate MANIFEST.json)."""

ASAN_TARGET = "x86_64-unknown-linux-gnu"

FLAVOURS = {
    # arithmetic slips and debug assertions become panics
    "checked": {"profile": "checked"},
    # what a user ships: wrapping arithmetic, no debug assertions
    "release": {"profile": "release"},
}

COMMON_ASSUME = [
    "the harness's reference model (refparse / msg / ops) states the policy correctly; it is cross-checked against by-construction cases",
    "rustc/LLVM, the standard library and the crates dnssector depends on behave as documented",
    "coverage is what the seeded generators reach; a green run means 'held on these executions', not 'verified'",
]

BOTH = {"quick": ["checked", "release"], "thorough": ["checked", "release"]}

CHECKS = {
    "C01": {
        "title": "parsing untrusted bytes is total",
        "flavours": BOTH,
        "level": "exploration",
        "technique": "runtime monitoring: panic/abort/step-budget monitors over hostile parse workloads (checked + release builds)",
        "rule": "inputs = grammar-derived valid packets, 22 structure-aware mutations of them, 46 boundary families (both sides), random bytes behind a plausible header, tiny buffers for the name checkers; distinct = distinct (library verdict, reference clause / name sub-clause or accepted record-type set, deepest pointer chain, length bucket) among inputs of >= 12 bytes",
        "floors": {"quick": {"evaluations": 500000, "parse_ok": 50000, "parse_err": 50000, "primitive_calls": 1000000},
                   "thorough": {"evaluations": 5000000, "parse_ok": 500000, "parse_err": 500000}},
        "assumptions": COMMON_ASSUME + ["memory safety of safe Rust: an out-of-bounds read surfaces as an index panic, which the monitor catches",
                                        "stack overflow / abort are observed only if some generated input triggers them (attributed through the per-worker case slot)"],
        "design_ref": "DESIGN.md §5 C01",
        "level_text": "Every generated input is parsed by the real parser under catch_unwind with a logical step budget armed through the cfg hook, in worker processes whose abnormal exits are attributed to a case; public name checkers and cursor primitives are driven with every small offset and hostile offsets. Both an overflow-checking and a release-like build are run. Exploration is the honest level: the input space is unbounded.",
    },
    "C02": {
        "title": "the parser accepts exactly the well-formed packets",
        "flavours": BOTH,
        "level": "exploration",
        "technique": "runtime monitoring: differential oracle (independent reference recogniser + verdicts known by construction) over boundary and hostile inputs, both directions",
        "rule": "same generators as C01 weighted towards the 46 boundary families (last legal / first illegal instance of every clause); distinct = distinct (reference verdict, violated clause and name sub-clause or accepted shape, generator family)",
        "floors": {"quick": {"evaluations": 500000, "wellformed": 100000},
                   "thorough": {"evaluations": 5000000, "wellformed": 1000000}},
        "assumptions": COMMON_ASSUME + ["only verdicts are compared, never error kinds or messages"],
        "design_ref": "DESIGN.md §5 C02",
        "level_text": "The library's Ok/Err is compared with an independent executable statement of the acceptance policy on every input, in both directions; boundary cases additionally carry a verdict known by construction that must agree with both. A disagreement between construction and reference makes the run inconclusive (harness defect), never a violation.",
    },
    "C18": {
        "title": "validation work is linear in the packet size",
        "flavours": {"quick": ["release"], "thorough": ["release", "checked"]},
        "level": "exploration",
        "technique": "runtime monitoring: cfg-guarded step counter read across parse; fixed linear bound plus fitted growth exponent on adversarial families",
        "rule": "8 adversarial families (16-hop chains through 127 one-byte labels for NS and SOA, shared maximal names, dense option lists, header-resident names, literal 1-byte-label names, DNAME) at 7 sizes from 1 KiB to 64 KiB plus random sizes and damaged variants, plus the C01 parse workload; distinct = distinct (family, verdict, steps-per-byte bucket, length bucket)",
        "floors": {"quick": {"evaluations": 100000, "exponent_fits": 8, "accepted": 20000, "rejected": 20000},
                   "thorough": {"evaluations": 1000000, "exponent_fits": 8}},
        "assumptions": COMMON_ASSUME + ["the counter sees the loops that carry a tick (all wire-walking loops present today; see MANIFEST.hooks)",
                                        "bound: steps <= 32*len + 1024, derived from <=128 labels + 16 pointers per name walk and 14 bytes per densest record; scale-free guard: fitted exponent <= 1.15"],
        "design_ref": "DESIGN.md §5 C18",
        "level_text": "Work is observed directly (step counter delta across parse, split by site), not inferred from wall-clock. Every input of the hostile workload and of eight families built to maximise pointer following must stay under the linear bound, and the fitted exponent per family must stay near 1.",
    },
}

NOT_APPLICABLE = {}

HOOK_COMMITS = ["230a15f"]

ENGINES = [
    {"name": "dnsmon", "path": "/verif/harness", "serves_properties": sorted(CHECKS.keys()),
     "kind_free_text": "Rust harness crate path-depending on /repo: reference model, workload generators, monitors; sharded worker processes driven by /verif/check"},
]

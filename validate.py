#!/opt/veriftools/pyvenv/bin/python
import json, jsonschema, glob, sys
jsonschema.validate(json.load(open('/verif/MANIFEST.json')), json.load(open('/root/.vp/MANIFEST.schema.json')))
bad = 0
for f in sorted(glob.glob('/verif/evidence/*.json')):
    try:
        jsonschema.validate(json.load(open(f)), json.load(open('/root/.vp/EVIDENCE.schema.json')))
    except Exception as e:
        bad += 1
        print('INVALID', f, str(e)[:300])
print('manifest valid; evidence files checked, invalid =', bad)
sys.exit(1 if bad else 0)

"""Extra engines a check may register besides the sharded flavour runs."""
import json
import os
import re
import subprocess
import time

VERIF = os.path.dirname(os.path.abspath(__file__))


def run_engine(name, prop, tier, seed, build, run_workers, log, ctx):
    if name == "proto_check":
        return proto_check(prop, ctx, log)
    if name == "miri":
        return miri(prop, tier, seed, ctx, log)
    if name == "fuzz":
        return fuzz(prop, tier, seed, ctx, log, build)
    if name == "tsan":
        return tsan(prop, tier, seed, ctx, log, build, run_workers)
    raise SystemExit("unknown engine " + name)


def proto_check(prop, ctx, log):
    """Compile-time observation for C15: every member of the shipped header's FnTable must have the type the
    library exports. Only type mismatches are violations; anything else that stops the compiler is inconclusive."""
    repo = ctx["repo"]
    hdr = os.path.join(repo, "src/bin/c_hook")
    src = os.path.join(ctx["harness"], "cdriver", "proto_check.c")
    cmd = ["clang", "-fsyntax-only", "-Wall", "-Werror=incompatible-pointer-types",
           "-Werror=incompatible-function-pointer-types", "-Werror=int-conversion", "-I" + hdr, src]
    r = subprocess.run(cmd, stdout=subprocess.PIPE, stderr=subprocess.STDOUT, text=True)
    out = {"results": [], "aborts": [], "inconclusive": [], "coverage": {"members_checked": 30, "cmd": " ".join(cmd)}}
    if r.returncode == 0:
        out["coverage"]["verdict"] = "all 30 member types agree"
        return out
    errs = [l for l in r.stdout.splitlines() if "error:" in l]
    mism = [l for l in errs if "incompatible" in l]
    if mism:
        members = sorted(set(re.findall(r"t->(\w+)", r.stdout)))
        # the member named on the line after the first error
        m = re.search(r"error: incompatible[^\n]*\n[^\n]*?(\w+)\)?\(|= t->(\w+)", r.stdout)
        first = None
        for line in r.stdout.splitlines():
            mm = re.search(r"\(\*(\w+)\)", line)
            if "error: incompatible" in line:
                first = True
                continue
            if first and mm:
                first = mm.group(1)
                break
        member = first if isinstance(first, str) else (members[0] if members else "?")
        out["results"].append({
            "check": prop, "flavour": "proto_check", "seed": 0, "shard": 0, "nshards": 1, "tier": "quick",
            "evaluations": 30, "exhaustive": True, "distinct_extra": 0, "timed_out": False, "wall_s": 0.1,
            "distinct": [], "counters": {"proto_members_checked": 30}, "maxima": {}, "samples": [], "notes": [],
            "violations": [{"property": prop, "signature": "header-prototype-mismatch|%s" % member,
                            "detail": "the shipped c_hook.h declares FnTable.%s with a type the library does not export: %s"
                                      % (member, mism[0][:600]),
                            "case": 0, "phase": "proto_check", "input_hex": "", "count": len(mism)}],
        })
    else:
        out["inconclusive"].append("proto_check.c does not compile against the shipped header for a reason other than a type mismatch: %s" % (errs[:2] or r.stdout[-300:]))
    return out


def miri(prop, tier, seed, ctx, log):
    """Run a reduced workload of the check under Miri (Tree Borrows; see DESIGN.md C15)."""
    env = dict(ctx["env"])
    env["MIRIFLAGS"] = "-Zmiri-tree-borrows -Zmiri-disable-isolation"
    env["RUSTFLAGS"] = "--cfg dnssector_verif"
    tdir = os.path.join(ctx["target"], "miri")
    nshards = ctx.get("miri_shards", 8)
    # --release: without debug assertions chomp's debugtrace does not capture backtraces on every parse
    # error (Miri cannot run _Unwind_Backtrace); Miri's own checks are unaffected by the profile
    base = ["cargo", "+nightly", "miri", "run", "--offline", "--release", "--target-dir", tdir, "--bin", "dnsmon", "--"]
    out = {"results": [], "aborts": [], "inconclusive": [], "coverage": {}}
    t0 = time.time()
    # warm-up build (serialises the cargo lock once)
    r = subprocess.run(base + ["noop"],
                       cwd=ctx["harness"], env=env, stdout=subprocess.PIPE, stderr=subprocess.STDOUT, text=True)
    if "Finished" not in r.stdout and "Running" not in r.stdout:
        out["inconclusive"].append("miri build failed: %s" % r.stdout[-400:])
        return out
    procs = []
    mtier = "miri"
    for i in range(nshards):
        cmd = base + ["run", "--check", prop, "--tier", mtier, "--seed", str(seed), "--shard", str(i),
                      "--nshards", str(nshards), "--flavour", "miri", "--scale", str(ctx.get("miri_scale", 1.0))]
        procs.append((i, subprocess.Popen(cmd, cwd=ctx["harness"], env=env, stdout=subprocess.PIPE,
                                          stderr=subprocess.PIPE, text=True)))
    evals = 0
    unsupported = []
    for i, p in procs:
        try:
            so, se = p.communicate(timeout=ctx.get("miri_timeout", 2400))
        except subprocess.TimeoutExpired:
            p.kill()
            out["inconclusive"].append("miri shard %d: wall-clock watchdog" % i)
            continue
        js = [l for l in so.splitlines() if l.startswith("{")]
        if p.returncode == 0 and js:
            try:
                res = json.loads(js[-1])
                res["flavour"] = "miri"
                evals += res["evaluations"]
                out["results"].append(res)
                continue
            except Exception:
                pass
        if "error: unsupported operation" in se:
            # this tree does something the interpreter cannot execute (a foreign function, a backtrace): Miri has
            # nothing to say about it. That is neither a violation nor a reason to distrust the other engines of
            # the check (native, ASan and valgrind builds run the same workload); it is recorded in the evidence.
            k = se.find("error: unsupported operation")
            unsupported.append("shard %d: %s" % (i, se[k:k + 200].replace("\n", " ")))
        elif "Undefined Behavior" in se or "data race" in se.lower():
            k = se.find("error:")
            out["aborts"].append({"shard": i, "nshards": nshards, "rc": p.returncode, "case": None,
                                  "phase_hash": None, "stderr": se[k:k + 3000], "flavour": "miri"})
        else:
            out["inconclusive"].append("miri shard %d ended with rc %s: %s" % (i, p.returncode, se[-300:]))
    out["coverage"] = {"miri_shards": nshards, "miri_evaluations": evals, "wall_s": round(time.time() - t0, 1),
                       "flags": env["MIRIFLAGS"], "shards_stopped_by_an_unsupported_operation": unsupported}
    log("miri: %d evaluations in %.1fs%s" % (evals, time.time() - t0, " (%d shards stopped: unsupported operation)" % len(unsupported) if unsupported else ""))
    return out


def tsan(prop, tier, seed, ctx, log, build, run_workers):
    """A reduced workload of the check under ThreadSanitizer (std rebuilt with -Zbuild-std)."""
    out = {"results": [], "aborts": [], "inconclusive": [], "coverage": {}}
    t0 = time.time()
    binp = build("tsan")
    if binp is None:
        out["inconclusive"].append("tsan build failed")
        return out
    spec = {"shards": {"tsan": ctx.get("tsan_shards", 4)}, "scale": {"tsan": {tier: ctx.get("tsan_scale", 1.0)}},
            "time_cap": {tier: ctx.get("tsan_time_cap", 600)}}
    res, ab, inc = run_workers(prop, "tsan", binp, tier, seed, spec, tier_override="tsan")
    out["results"], out["aborts"], out["inconclusive"] = res, ab, inc
    out["coverage"] = {"tsan_evaluations": sum(r["evaluations"] for r in res), "wall_s": round(time.time() - t0, 1)}
    log("tsan: %d evaluations in %.1fs" % (out["coverage"]["tsan_evaluations"], time.time() - t0))
    return out


FUZZ_TARGET = {"C01": "parse_diff", "C02": "parse_diff", "C18": "parse_diff", "C03": "roundtrip", "C04": "roundtrip",
               "C05": "roundtrip", "C06": "roundtrip", "C07": "rename", "C13": "text", "C14": "text",
               # decision tapes (the fuzzer's bytes are the generator's random decisions)
               "C08": "history", "C09": "history", "C10": "history", "C11": "walk", "C15": "script"}


def fuzz(prop, tier, seed, ctx, log, build):
    """Coverage-guided exploration (libFuzzer + ASan, cargo-fuzz) of the same oracles, seeded from the generators."""
    out = {"results": [], "aborts": [], "inconclusive": [], "coverage": {}}
    target = FUZZ_TARGET[prop]
    t0 = time.time()
    binp = build("checked")
    if binp is None:
        out["inconclusive"].append("build failed")
        return out
    work = os.path.join(ctx["target"], "fuzz-work", prop)
    corpus = os.path.join(work, "corpus")
    arts = os.path.join(work, "artifacts")
    subprocess.run(["rm", "-rf", work])
    os.makedirs(arts, exist_ok=True)
    r = subprocess.run([binp, "dump-corpus", corpus, str(seed)], stdout=subprocess.PIPE, text=True)
    if r.returncode != 0:
        out["inconclusive"].append("could not dump the seed corpus")
        return out
    env = dict(ctx["env"])
    env["RUSTFLAGS"] = "--cfg dnssector_verif"
    secs = ctx.get("fuzz_seconds", 90)
    cmd = ["cargo", "+nightly", "fuzz", "run", "--target-dir", os.path.join(ctx["target"], "fuzz"), target,
           os.path.join(corpus, target), "--", "-max_total_time=%d" % secs, "-timeout=10", "-fork=%d" % (os.cpu_count() or 16),
           "-artifact_prefix=%s/" % arts, "-max_len=4096"]
    fr = subprocess.run(cmd, cwd=os.path.join(ctx["harness"]), env=env, stdout=subprocess.PIPE, stderr=subprocess.STDOUT, text=True)
    stats = re.findall(r"#(\d+): cov: (\d+) ft: (\d+) corp: (\d+)", fr.stdout)
    if not stats:
        out["inconclusive"].append("fuzzer produced no statistics: %s" % fr.stdout[-400:])
        return out
    execs, cov, ft, corp = (int(x) for x in stats[-1])
    found = sorted(os.listdir(arts))
    viols = []
    notes = []
    for a in found:
        pth = os.path.join(arts, a)
        one = subprocess.run([binp, "fuzz-one", target, pth], stdout=subprocess.PIPE, stderr=subprocess.PIPE, text=True, env=ctx["env"])
        got = []
        try:
            js = [l for l in one.stdout.splitlines() if l.startswith("{")]
            got = [v for v in json.loads(js[-1])["violations"] if v["property"] == prop]
        except Exception:
            pass
        if got:
            for v in got:
                v["detail"] += " (fuzz artifact kept at %s)" % pth
                viols.append(v)
        elif a.startswith("crash-") and one.returncode != 0:
            out["aborts"].append({"shard": 0, "nshards": 1, "rc": one.returncode, "case": None, "phase_hash": None,
                                  "stderr": one.stderr[-3000:], "flavour": "fuzz"})
        elif a.startswith("timeout-"):
            # libFuzzer's 10 s per-input limit is wall-clock: on a loaded machine it is not a verdict. The input was
            # re-run above under the logical step budget (fuzz-one); it did not exceed it, so this is only noted.
            notes.append("libFuzzer timeout artifact %s not reproduced under the step budget (ignored)" % a)
    out["results"].append({"check": prop, "flavour": "fuzz", "seed": seed, "shard": 0, "nshards": 1, "tier": tier,
                           "evaluations": execs, "exhaustive": False, "distinct_extra": 0, "timed_out": False,
                           "wall_s": round(time.time() - t0, 1), "distinct": [],
                           "counters": {"fuzz_executions": execs, "fuzz_corpus": corp}, "maxima": {"fuzz_coverage_edges": cov, "fuzz_features": ft},
                           "samples": [], "notes": notes, "violations": viols})
    out["coverage"] = {"target": target, "executions": execs, "coverage_edges": cov, "features": ft, "corpus": corp,
                       "artifacts": found, "seconds": secs, "sanitizer": "address (cargo-fuzz default)"}
    log("fuzz %s: %d executions, cov %d, corpus %d, %d artifacts" % (target, execs, cov, corp, len(found)))
    return out

#!/bin/bash
# Runs every check's quick (or given) tier at several seeds and prints one line per run; used to confirm that the
# checks stay silent on the unchanged tree whatever the seed.  usage: ./run_seeds.sh <tier> <seed> [<seed> ...]
tier=$1; shift
cd "$(dirname "$0")"
for seed in "$@"; do
  for c in C01 C02 C03 C04 C05 C06 C07 C08 C09 C10 C11 C12 C13 C14 C15 C16 C17 C18; do
    out=$(VERIF_SEED=$seed ./check $c $tier 2>/dev/null); rc=$?
    echo "$c $tier seed=$seed rc=$rc violations=$(echo "$out" | grep -c '^VIOLATION') inconclusive=$(echo "$out" | grep -c '^INCONCLUSIVE') known=$(echo "$out" | grep -c '^KNOWN-FINDING')"
    echo "$out" | grep -E "^VIOLATION|^INCONCLUSIVE" | head -5
  done
done

#!/bin/bash
# usage: ./run_checks.sh <tier> <seed> <check> [<check> ...]   (one line per run; used for extra silence runs)
tier=$1; seed=$2; shift 2
cd "$(dirname "$0")"
for c in "$@"; do
  out=$(VERIF_SEED=$seed ./check $c $tier 2>/dev/null); rc=$?
  echo "$c $tier seed=$seed rc=$rc violations=$(echo "$out" | grep -c '^VIOLATION') inconclusive=$(echo "$out" | grep -c '^INCONCLUSIVE') known=$(echo "$out" | grep -c '^KNOWN-FINDING')"
  echo "$out" | grep -E "^VIOLATION|^INCONCLUSIVE" | head -5
done

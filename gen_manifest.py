#!/usr/bin/env python3
"""Regenerates MANIFEST.json from checkdefs.py (run after editing checkdefs.py)."""
import json, os, subprocess
from checkdefs import CHECKS, NOT_APPLICABLE, ENGINES, HOOK_COMMITS

props = [json.loads(l)["id"] for l in open("properties.jsonl")]
checks = []
for pid in props:
    if pid not in CHECKS:
        continue
    c = CHECKS[pid]
    checks.append({
        "property_id": pid,
        "quick_cmd": "./check %s quick" % pid,
        "thorough_cmd": "./check %s thorough" % pid,
        "evidence_file": "/verif/evidence/%s.json" % pid,
        "replay_cmd_template": "./check replay {path}",
        "engine": "dnsmon",
        "level_claimed": {"category": c["level"], "text": c["level_text"], "design_ref": c["design_ref"]},
        "level_note": "; ".join(c["assumptions"]),
        "technique": c["technique"],
    })
na = [{"property_id": p, "reason": NOT_APPLICABLE.get(p, "check under construction (see DESIGN.md)")}
      for p in props if p not in CHECKS]
m = {
    "version": 1,
    "setup_cmd": "./check build checked release cdrv cdrv-asan cdrv-vg miri",
    "hooks": {
        "guard": "--cfg dnssector_verif",
        "enable": "RUSTFLAGS='--cfg dnssector_verif' set by ./check for every build of the harness, which path-depends on /repo",
        "baseline_off_cmd": "cd /repo && cargo test --workspace --no-fail-fast --offline",
        "source_commits": HOOK_COMMITS,
        "add_only": True,
    },
    "engines": ENGINES,
    "checks": checks,
    "notes": "Technique family: runtime monitoring and sanitizers. Exit 0 = held on everything explored, 1 = VIOLATION line, 2 = INCONCLUSIVE line (never folded into the other two). known_findings.json lists recorded and fixed findings.",
    "not_applicable": na,
}
json.dump(m, open("MANIFEST.json", "w"), indent=1)
print("MANIFEST.json: %d checks, %d not_applicable" % (len(checks), len(na)))

#!/usr/bin/env python3
"""Which lines of /repo/src do the quick-tier workloads execute?

Diagnostic, not a check: builds the harness with -Cinstrument-coverage (nightly), runs every property's quick
workload (native flavour; C15 with the C driver linked), merges the profiles and writes
  coverage/summary.json   per file: executable lines, lines executed, uncovered line ranges; per property totals
  coverage/uncovered.txt  the uncovered source lines, with their text
A line no workload executes is a line on which no monitor can observe anything: the list is read by hand to decide
whether a workload is missing (DESIGN.md section 13).

usage: ./coverage.py [C01 C02 ...]
"""
import importlib.machinery
import importlib.util
import json
import os
import shutil
import subprocess
import sys

VERIF = os.path.dirname(os.path.abspath(__file__))
loader = importlib.machinery.SourceFileLoader("check_mod", os.path.join(VERIF, "check"))
spec = importlib.util.spec_from_loader("check_mod", loader)
chk = importlib.util.module_from_spec(spec)
loader.exec_module(chk)


def sysroot_bin(tool):
    sr = subprocess.run(["rustc", "+nightly", "--print", "sysroot"], stdout=subprocess.PIPE, text=True).stdout.strip()
    return os.path.join(sr, "lib", "rustlib", "x86_64-unknown-linux-gnu", "bin", tool)


def main():
    props = sys.argv[1:] or sorted(chk.CHECKS)
    tdir = os.path.join(chk.TARGET, "cov")
    env = chk.base_env()
    env["RUSTFLAGS"] = "--cfg dnssector_verif -Cinstrument-coverage"
    env["DNSMON_CDRV"] = "plain"
    # (instrumented build scripts write a profile when they run: keep it out of the source trees)
    env["LLVM_PROFILE_FILE"] = os.path.join(tdir, "build-%p.profraw")
    r = subprocess.run(["cargo", "+nightly", "build", "--offline", "--profile", "checked", "--target-dir", tdir],
                       cwd=chk.harness_dir(), env=env, stdout=subprocess.PIPE, stderr=subprocess.STDOUT, text=True)
    if r.returncode != 0:
        print(r.stdout[-3000:])
        return 2
    binp = os.path.join(tdir, "checked", "dnsmon")
    prof = os.path.join(tdir, "prof")
    shutil.rmtree(prof, ignore_errors=True)
    os.makedirs(prof)
    n = os.cpu_count() or 16
    merged = {}
    for p in props:
        procs = []
        for i in range(n):
            e = dict(env)
            e["LLVM_PROFILE_FILE"] = os.path.join(prof, "%s-%d.profraw" % (p, i))
            out = os.path.join(prof, "%s-%d.json" % (p, i))
            cmd = [binp, "run", "--check", p, "--seed", "1", "--tier", "quick", "--shard", str(i), "--nshards", str(n),
                   "--out", out, "--slot", out + ".slot", "--scale", "1.0", "--time-cap", "900", "--flavour", "cdrv"]
            procs.append(subprocess.Popen(cmd, env=e, cwd=VERIF, stdout=subprocess.DEVNULL, stderr=subprocess.DEVNULL))
        for pr in procs:
            pr.wait()
        raws = [os.path.join(prof, f) for f in os.listdir(prof) if f.startswith(p + "-") and f.endswith(".profraw")]
        pd = os.path.join(prof, p + ".profdata")
        subprocess.run([sysroot_bin("llvm-profdata"), "merge", "-sparse", "-o", pd] + raws, check=True)
        for f in raws:
            os.remove(f)
        merged[p] = pd
        print("ran %s" % p, flush=True)
    allpd = os.path.join(prof, "all.profdata")
    subprocess.run([sysroot_bin("llvm-profdata"), "merge", "-sparse", "-o", allpd] + list(merged.values()), check=True)

    def lcov(pd):
        r = subprocess.run([sysroot_bin("llvm-cov"), "export", "-format=lcov", "-instr-profile", pd, binp,
                            "--ignore-filename-regex", r"(\.cargo|rustc|/verif/|harness/)"],
                           stdout=subprocess.PIPE, stderr=subprocess.DEVNULL, text=True)
        files, cur = {}, None
        for line in r.stdout.splitlines():
            if line.startswith("SF:"):
                cur = line[3:]
                files[cur] = {}
            elif line.startswith("DA:") and cur:
                ln, cnt = line[3:].split(",")[:2]
                files[cur][int(ln)] = int(cnt)
        return {f: d for f, d in files.items() if "/src/" in f and chk.REPO in f}

    allc = lcov(allpd)
    summary = {"files": {}, "per_property": {}}
    unc_lines = []
    for f, d in sorted(allc.items()):
        rel = os.path.relpath(f, chk.REPO)
        tot = len(d)
        cov = sum(1 for c in d.values() if c > 0)
        unc = sorted(l for l, c in d.items() if c == 0)
        ranges, start, prev = [], None, None
        for l in unc:
            if start is None:
                start = prev = l
            elif l == prev + 1:
                prev = l
            else:
                ranges.append([start, prev])
                start = prev = l
        if start is not None:
            ranges.append([start, prev])
        summary["files"][rel] = {"executable_lines": tot, "executed": cov, "uncovered_ranges": ranges}
        try:
            src = open(f).read().splitlines()
        except Exception:
            src = []
        for l in unc:
            unc_lines.append("%s:%d: %s" % (rel, l, src[l - 1].rstrip() if l - 1 < len(src) else ""))
    for p, pd in merged.items():
        c = lcov(pd)
        summary["per_property"][p] = {os.path.relpath(f, chk.REPO): sum(1 for x in d.values() if x > 0) for f, d in c.items()}
    tot = sum(v["executable_lines"] for v in summary["files"].values())
    cov = sum(v["executed"] for v in summary["files"].values())
    summary["total"] = {"executable_lines": tot, "executed": cov}
    os.makedirs(os.path.join(VERIF, "coverage"), exist_ok=True)
    json.dump(summary, open(os.path.join(VERIF, "coverage", "summary.json"), "w"), indent=1)
    open(os.path.join(VERIF, "coverage", "uncovered.txt"), "w").write("\n".join(unc_lines) + "\n")
    for f, v in summary["files"].items():
        print("%-32s %5d / %5d" % (f, v["executed"], v["executable_lines"]))
    print("total %d / %d executable lines of %s/src executed by the quick workloads" % (cov, tot, chk.REPO))
    shutil.rmtree(prof, ignore_errors=True)
    return 0


if __name__ == "__main__":
    sys.exit(main())

#![no_main]
use libfuzzer_sys::fuzz_target;

fuzz_target!(|data: &[u8]| {
    dnsmon::checks::fuzz::run_target("history", data, true);
});

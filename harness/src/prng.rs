//! Deterministic randomness: every case is a pure function of
//! (VERIF_SEED, check id, shard, case index).

#[derive(Clone)]
pub struct Rng {
    s: [u64; 4],
    /// "tape" mode (coverage-guided tier): decisions are read from these bytes, eight per draw, so that a fuzzer
    /// mutating one byte changes one decision; when the tape runs out the generator continues pseudo-randomly
    tape: Option<(std::sync::Arc<Vec<u8>>, usize)>,
}

fn splitmix(x: &mut u64) -> u64 {
    *x = x.wrapping_add(0x9e3779b97f4a7c15);
    let mut z = *x;
    z = (z ^ (z >> 30)).wrapping_mul(0xbf58476d1ce4e5b9);
    z = (z ^ (z >> 27)).wrapping_mul(0x94d049bb133111eb);
    z ^ (z >> 31)
}

pub fn hash_bytes(b: &[u8]) -> u64 {
    // FNV-1a 64 followed by a splitmix finaliser
    let mut h: u64 = 0xcbf29ce484222325;
    for &c in b {
        h ^= c as u64;
        h = h.wrapping_mul(0x100000001b3);
    }
    let mut x = h;
    splitmix(&mut x)
}

pub fn hash_mix(a: u64, b: u64) -> u64 {
    let mut x = a ^ b.rotate_left(32).wrapping_mul(0x9e3779b97f4a7c15);
    splitmix(&mut x)
}

impl Rng {
    pub fn new(seed: u64) -> Self {
        let mut x = seed;
        let s = [
            splitmix(&mut x),
            splitmix(&mut x),
            splitmix(&mut x),
            splitmix(&mut x),
        ];
        Rng { s, tape: None }
    }

    /// Decisions come from `tape` first (see the field), then from a generator seeded by its hash.
    pub fn from_tape(tape: &[u8]) -> Self {
        let mut r = Rng::new(hash_bytes(tape));
        r.tape = Some((std::sync::Arc::new(tape.to_vec()), 0));
        r
    }

    pub fn for_case(seed: u64, check: &str, shard: u64, case: u64) -> Self {
        let mut h = hash_mix(seed, hash_bytes(check.as_bytes()));
        h = hash_mix(h, shard);
        h = hash_mix(h, case);
        Rng::new(h)
    }

    pub fn next_u64(&mut self) -> u64 {
        if let Some((t, pos)) = &mut self.tape {
            if *pos + 8 <= t.len() {
                let mut b = [0u8; 8];
                b.copy_from_slice(&t[*pos..*pos + 8]);
                *pos += 8;
                // the byte a one-byte draw looks at is the first tape byte, the low bits of a `below` draw the next
                return u64::from_be_bytes(b);
            }
        }
        let s = &mut self.s;
        let result = s[1].wrapping_mul(5).rotate_left(7).wrapping_mul(9);
        let t = s[1] << 17;
        s[2] ^= s[0];
        s[3] ^= s[1];
        s[1] ^= s[2];
        s[0] ^= s[3];
        s[2] ^= t;
        s[3] = s[3].rotate_left(45);
        result
    }

    pub fn u32(&mut self) -> u32 {
        (self.next_u64() >> 32) as u32
    }
    pub fn u16(&mut self) -> u16 {
        (self.next_u64() >> 48) as u16
    }
    pub fn u8(&mut self) -> u8 {
        (self.next_u64() >> 56) as u8
    }

    /// uniform in 0..n (n > 0)
    pub fn below(&mut self, n: usize) -> usize {
        debug_assert!(n > 0);
        ((self.next_u64() >> 11) % (n as u64)) as usize
    }

    /// uniform in lo..=hi
    pub fn range(&mut self, lo: usize, hi: usize) -> usize {
        lo + self.below(hi - lo + 1)
    }

    /// true with probability num/den
    pub fn chance(&mut self, num: usize, den: usize) -> bool {
        self.below(den) < num
    }

    pub fn pick<'a, T>(&mut self, xs: &'a [T]) -> &'a T {
        &xs[self.below(xs.len())]
    }

    pub fn bytes(&mut self, n: usize) -> Vec<u8> {
        (0..n).map(|_| self.u8()).collect()
    }

    /// small numbers most of the time, occasionally up to `max`
    pub fn skewed(&mut self, max: usize) -> usize {
        if max == 0 {
            return 0;
        }
        match self.below(8) {
            0..=4 => self.below(max.min(4) + 1),
            5 | 6 => self.below(max.min(12) + 1),
            _ => self.below(max + 1),
        }
    }
}

//! C05 — decompression keeps the message; output is pointer-free, valid and stable.

use dnssector::*;

use super::*;
use crate::gen::valid::{gen_valid, Cfg};
use crate::model::refparse::{refparse, STRICT};
use crate::prng::Rng;

pub fn one(ctx: &mut Ctx, x: &[u8], shape: &str) {
    ctx.evaluations += 1;
    let d = match refparse(x, STRICT) {
        Ok(d) => d,
        Err(_) => return,
    };
    if !matches!(lib_parse(x), Ok(Ok(_))) {
        ctx.count("not_accepted");
        return;
    }
    ctx.count("accepted");
    let want = d.msg.encode_literal();
    let viol = |ctx: &mut Ctx, cls: &str, detail: String| {
        ctx.violation("C05", format!("uncompress|{}", cls), format!("{}: {}", shape, detail), x);
    };
    let u = match guarded(crate::mon::work_budget(x.len()) * 4, || Compress::uncompress(x).map_err(|e| e.to_string())) {
        Err(p) => {
            let kind = if p.is_budget() { "non-termination" } else { "panic" };
            return viol(ctx, &format!("{}|{}", kind, p.class()), p.msg.clone());
        }
        Ok(Err(e)) => return viol(ctx, "error-on-accepted-packet", e),
        Ok(Ok(u)) => u,
    };
    ctx.count("uncompressed");
    // the canonical pointer-free encoding of the decoded message is the only admissible output:
    // identical header, identical record sequence, byte-identical names, opaque data and OPT verbatim
    if u != want {
        let at = u.iter().zip(want.iter()).position(|(a, b)| a != b).unwrap_or(u.len().min(want.len()));
        let cls = match refparse(&u, STRICT) {
            Err(r) => format!("output-rejected|{}", r.clause.as_str()),
            Ok(du) => match du.msg.diff(&d.msg, false, true) {
                Some(_) => "message-changed".to_string(),
                None => {
                    if du.layout.pointers > 0 {
                        "pointer-left".to_string()
                    } else {
                        "bytes-differ".to_string()
                    }
                }
            },
        };
        return viol(ctx, &cls, format!("output differs from the expected encoding at byte {} (len {} vs {}): {}", at, u.len(), want.len(), short(&u)));
    }
    // (accepted by the real parser, too)
    if !matches!(lib_parse(&u), Ok(Ok(_))) {
        return viol(ctx, "output-rejected-by-parser", short(&u));
    }
    // stable
    match guarded(crate::mon::work_budget(u.len()) * 4, || Compress::uncompress(&u).map_err(|e| e.to_string())) {
        Ok(Ok(u2)) if u2 == u => ctx.count("idempotent"),
        Ok(Ok(_)) => return viol(ctx, "not-idempotent", "second decompression changed the packet".into()),
        Ok(Err(e)) => return viol(ctx, "second-decompression-error", e),
        Err(p) => return viol(ctx, &format!("second-decompression|{}", p.class()), p.msg.clone()),
    }
    // record-boundary offset translation
    let du = refparse(&u, STRICT).expect("canonical encoding is well-formed");
    let mut src = d.layout.record_starts();
    let mut dst = du.layout.record_starts();
    src.push(x.len());
    dst.push(u.len());
    for (o, want_o) in src.iter().zip(dst.iter()) {
        ctx.count("offset_translations");
        match guarded(crate::mon::work_budget(x.len()) * 4, || {
            Compress::uncompress_with_previous_offset(x, *o).map(|r| r.1).map_err(|e| e.to_string())
        }) {
            Ok(Ok(got)) if got == *want_o => {}
            Ok(Ok(got)) => return viol(ctx, "offset-translation-wrong", format!("boundary {} -> {} expected {}", o, got, want_o)),
            Ok(Err(e)) => return viol(ctx, "offset-translation-error", e),
            Err(p) => return viol(ctx, &format!("offset-translation|{}", p.class()), format!("boundary {}: {}", o, p.msg)),
        }
    }
}

/// A packet this tree's parser accepts although the reference calls it ill-formed (that disagreement is C02's
/// finding, and on a tree where C02 holds this function is never reached). The property is quantified over
/// *accepted* packets, so the clauses that need no decoded message are still judged: decompression terminates
/// without panic or error, its output is accepted by the same parser, and decompressing again changes nothing.
pub fn one_unmodelled(ctx: &mut Ctx, x: &[u8], shape: &str) {
    if !matches!(lib_parse(x), Ok(Ok(_))) {
        return;
    }
    ctx.count("accepted_though_illformed_by_reference");
    let viol = |ctx: &mut Ctx, cls: &str, detail: String| {
        ctx.violation("C05", format!("uncompress|unmodelled|{}", cls), format!("{} (accepted by the parser, ill-formed by the reference): {}", shape, detail), x);
    };
    let u = match guarded(crate::mon::work_budget(x.len()) * 4, || Compress::uncompress(x).map_err(|e| e.to_string())) {
        Err(p) => {
            let kind = if p.is_budget() { "non-termination" } else { "panic" };
            return viol(ctx, &format!("{}|{}", kind, p.class()), p.msg.clone());
        }
        Ok(Err(e)) => return viol(ctx, "error-on-accepted-packet", e),
        Ok(Ok(u)) => u,
    };
    if !matches!(lib_parse(&u), Ok(Ok(_))) {
        return viol(ctx, "output-rejected-by-parser", short(&u));
    }
    match guarded(crate::mon::work_budget(u.len()) * 4, || Compress::uncompress(&u).map_err(|e| e.to_string())) {
        Ok(Ok(u2)) if u2 == u => {}
        Ok(Ok(_)) => viol(ctx, "not-idempotent", "second decompression changed the packet".into()),
        Ok(Err(e)) => viol(ctx, "second-decompression-error", e),
        Err(p) => viol(ctx, &format!("second-decompression|{}", p.class()), p.msg.clone()),
    }
}

pub fn run(ctx: &mut Ctx) {
    let n = ctx.scaled(if ctx.tier == "thorough" { 8_000_000 } else { 240_000 });
    for case in ctx.phase("valid", n) {
        if case % 1024 == 0 && ctx.out_of_time() {
            break;
        }
        ctx.begin_case(case);
        let mut rng = Rng::for_case(ctx.seed, "c05", 0, case);
        let cfg = Cfg {
            compress_eighths: *rng.pick(&[3usize, 5, 7, 8]),
            max_records: if rng.chance(1, 25) { 50 } else { 10 },
            ..Default::default()
        };
        let v = gen_valid(&mut rng, &cfg);
        match refparse(&v.bytes, STRICT) {
            Ok(d) if d.msg == v.msg => {
                let sh = super::c03::shape_of(&d, v.opt_pos);
                ctx.cover(&sh);
                if v.opaque_target {
                    ctx.count("pointer_into_opaque_rdata");
                }
                if v.header_target {
                    ctx.count("pointer_into_header");
                }
                if v.max_chain >= 8 {
                    ctx.count("chain>=8");
                }
                ctx.count_n("pointers", v.pointers as u64);
                one(ctx, &v.bytes, &sh);
                ctx.sample(|| format!("{} :: {}", sh, short(&v.bytes)));
            }
            _ => {
                ctx.count("harness_error");
                ctx.notes.push(format!("harness: G-valid packet not decoded to its own message: {}", short(&v.bytes)));
            }
        }
    }
    // G-big: hundreds of records, names first occurring beyond offset 16383 (not addressable by a pointer),
    // pointers from far records back into the first 16 KiB
    let nb = ctx.scaled(if ctx.tier == "thorough" { 40_000 } else { 1_600 });
    for case in ctx.phase("big", nb) {
        if case % 64 == 0 && ctx.out_of_time() {
            break;
        }
        ctx.begin_case(case);
        let mut rng = Rng::for_case(ctx.seed, "c05-big", 0, case);
        let cfg = Cfg { max_records: 400, compress_eighths: 6, ..Default::default() };
        let mut v = gen_valid(&mut rng, &cfg);
        for _ in 0..6 {
            if v.bytes.len() > 20_000 {
                break;
            }
            v = gen_valid(&mut rng, &cfg);
        }
        if let Ok(d) = refparse(&v.bytes, STRICT) {
            if d.msg == v.msg {
                if v.bytes.len() > 16_383 {
                    ctx.count("packets_beyond_16383");
                }
                ctx.cover(&format!("big|{}|{}", v.bytes.len() / 8192, v.msg.n_records() / 50));
                one(ctx, &v.bytes, "big");
            }
        }
    }
    // the accepted families built to maximise name walking (127 one-byte labels shared by every record, names
    // through exactly 16 pointers, dense option lists): decompression must cope with the longest legal names
    let na = ctx.scaled(if ctx.tier == "thorough" { 20_000 } else { 800 });
    for case in ctx.phase("longest-names", na) {
        if case % 64 == 0 && ctx.out_of_time() {
            break;
        }
        ctx.begin_case(case);
        let mut rng = Rng::for_case(ctx.seed, "c05-longest", 0, case);
        let fam = (case as usize) % super::c18::FIRST_HOSTILE;
        let size = *rng.pick(&[600usize, 1024, 2048, 5000]);
        let x = super::c18::adversarial(&mut rng, fam, size);
        if refparse(&x, STRICT).is_ok() {
            ctx.count("longest_name_packets");
            ctx.cover(&format!("longest|{}|{}", super::c18::FAMILIES[fam], size));
            one(ctx, &x, super::c18::FAMILIES[fam]);
        }
    }
    let m = ctx.scaled(if ctx.tier == "thorough" { 4_000_000 } else { 200_000 });
    for case in ctx.phase("accepted-mutants", m) {
        if case % 2048 == 0 && ctx.out_of_time() {
            break;
        }
        ctx.begin_case(case);
        let mut rng = Rng::for_case(ctx.seed, "parse", 0, case);
        let inp = crate::gen::hostile::parse_input(&mut rng, case);
        if let Ok(d) = refparse(&inp.bytes, STRICT) {
            ctx.cover(&format!("m|{}|{}", inp.family, super::c03::shape_of(&d, crate::gen::valid::OptPos::None)));
            one(ctx, &inp.bytes, inp.family);
        } else if inp.bytes.len() >= 12 {
            one_unmodelled(ctx, &inp.bytes, inp.family);
        }
    }
}

//! C04 — header, question and EDNS summaries equal what the bytes say.

use dnssector::*;

use super::*;
use crate::gen::hostile::Asm;
use crate::gen::valid::{gen_valid, Cfg};
use crate::model::msg::*;
use crate::model::refparse::{refparse, STRICT};
use crate::mon::runaway_budget;
use crate::prng::Rng;

pub fn summaries(pp: &mut ParsedPacket, m: &Msg, order: usize) -> Result<u64, String> {
    let mut n = 0u64;
    macro_rules! eqf {
        ($what:expr, $got:expr, $want:expr) => {{
            n += 1;
            let (g, w) = ($got, $want);
            if g != w {
                return Err(format!("{}: got {:?} want {:?}", $what, g, w));
            }
        }};
    }
    let opt = m.opt();
    let ext_flags = opt.map(|o| (o.ttl & 0xffff) as u16);
    let want_flags = ((ext_flags.unwrap_or(0) as u32) << 16) | (m.flags & 0x87f0) as u32;
    eqf!("tid", pp.tid(), m.id);
    eqf!("flags", pp.flags(), want_flags);
    eqf!("opcode", pp.opcode(), ((m.flags >> 11) & 0xf) as u8);
    eqf!("rcode", pp.rcode(), (m.flags & 0xf) as u8);
    eqf!("is_response", pp.is_response(), m.flags & 0x8000 != 0);
    let want_dnssec = if m.flags & 0x8000 == 0 {
        ext_flags.unwrap_or(0) & 0x8000 != 0
    } else {
        m.flags & 0x0020 != 0
    };
    eqf!("dnssec", pp.dnssec(), want_dnssec);
    eqf!("edns_version", pp.edns_version, opt.map(|o| ((o.ttl >> 16) & 0xff) as u8));
    eqf!("ext_rcode", pp.ext_rcode, opt.map(|o| (o.ttl >> 24) as u8));
    eqf!("ext_flags", pp.ext_flags, ext_flags);
    let nopt = opt
        .map(|o| match &o.rdata {
            RData::Opt(v) => v.len(),
            _ => 0,
        })
        .unwrap_or(0);
    eqf!("edns_count", pp.edns_count as usize, nopt);
    eqf!("max_payload", pp.max_payload(), opt.map(|o| o.class as usize).unwrap_or(512));
    // the question, through the cached and the uncached paths, in several orders
    let q = &m.question[0];
    let raw0 = q.name.to_wire();
    let want_q = (q.name.to_text_lower(), q.qtype, q.qclass);
    let steps: &[usize] = match order % 6 {
        0 => &[0, 1, 2, 3],
        1 => &[3, 2, 1, 0],
        2 => &[2, 3, 0, 2, 3, 1],
        3 => &[1, 2, 3, 0],
        4 => &[3, 0, 3, 2],
        _ => &[2, 2, 1, 0, 3],
    };
    for &s in steps {
        match s {
            0 => {
                let g = pp.question_raw0().map(|(a, b, c)| (a.to_vec(), b, c));
                eqf!("question_raw0", g, Some((raw0.clone(), q.qtype, q.qclass)));
            }
            1 => {
                let g = pp.question_raw().map(|(a, b, c)| (a.to_vec(), b, c));
                eqf!("question_raw", g, Some((raw0[..raw0.len() - 1].to_vec(), q.qtype, q.qclass)));
            }
            2 => eqf!("question", pp.question(), Some(want_q.clone())),
            _ => eqf!("qtype_qclass", pp.qtype_qclass(), Some((q.qtype, q.qclass))),
        }
    }
    Ok(n)
}

fn one(ctx: &mut Ctx, x: &[u8], m: &Msg, order: usize, shape: &str) {
    ctx.evaluations += 1;
    let mut pp = match lib_parse(x) {
        Ok(Ok(pp)) => pp,
        _ => {
            ctx.count("not_accepted");
            return;
        }
    };
    ctx.count("accepted");
    match guarded(runaway_budget(x.len()), || summaries(&mut pp, m, order)) {
        Err(p) => ctx.violation("C04", format!("summaries|{}", p.class()), format!("{}: {}", shape, p.msg), x),
        Ok(Err(e)) => {
            let cls = e.split(':').next().unwrap_or("").to_string();
            ctx.violation("C04", format!("summaries|mismatch|{}", cls), format!("{}: {}", shape, e), x);
        }
        Ok(Ok(n)) => ctx.count_n("getter_comparisons", n),
    }
}

pub fn one_pub(ctx: &mut Ctx, x: &[u8], m: &Msg, order: usize) {
    one(ctx, x, m, order, "fuzz");
}

pub fn run(ctx: &mut Ctx) {
    // 1. exhaustive sweep: all 65536 flag words x {no OPT, OPT with DO, OPT without DO, OPT with odd fields}
    //    on a fixed body that is legal for queries and responses alike (additional records only)
    let words = ctx.phase("flag-sweep", 65536);
    let full = ctx.only_case.is_none();
    for w in words {
        ctx.begin_case(w);
        for variant in 0..4 {
            let mut a = Asm::header(0xbeef, w as u16, 1, 0, 0, if variant == 0 { 1 } else { 2 });
            a.label(b"Ex").label(b"COM").root().u16(28).u16(1);
            a.ptr(12).rrfix(T_A, 5, 4).raw(&[1, 2, 3, 4]);
            match variant {
                1 => {
                    a.root().u16(T_OPT).u16(4096).u32(0x0000_8000).u16(0);
                }
                2 => {
                    a.root().u16(T_OPT).u16(1232).u32(0x0000_0000).u16(4).u16(10).u16(0);
                }
                3 => {
                    a.root().u16(T_OPT).u16(0).u32(0xa1b2_7fff).u16(8).u16(8).u16(0).u16(3).u16(0);
                }
                _ => {}
            }
            let x = a.done();
            match refparse(&x, STRICT) {
                Ok(d) => {
                    ctx.cover(&format!("sweep|w{:04x}|v{}", w, variant));
                    one(ctx, &x, &d.msg, (w as usize + variant) % 6, "flag-sweep");
                }
                Err(_) => {
                    ctx.count("harness_error");
                    ctx.notes.push(format!("harness: flag-sweep body rejected by refparse: {}", short(&x)));
                }
            }
        }
    }
    if full {
        ctx.exhaustive = true;
    }
    // 2. random accepted packets: any OPT content, question names incl. ones written through a pointer into the header
    let n = ctx.scaled(if ctx.tier == "thorough" { 10_000_000 } else { 400_000 });
    for case in ctx.phase("valid", n) {
        if case % 2048 == 0 && ctx.out_of_time() {
            break;
        }
        ctx.begin_case(case);
        let mut rng = Rng::for_case(ctx.seed, "c04", 0, case);
        let v = gen_valid(&mut rng, &Cfg { max_records: 6, ..Default::default() });
        match refparse(&v.bytes, STRICT) {
            Ok(d) if d.msg == v.msg => {
                let q = &d.msg.question[0];
                let sh = format!(
                    "q{}l{} opt{:?} qr{} hdr{}",
                    q.name.0.len().min(5),
                    (q.name.wire_len() / 64),
                    v.opt_pos,
                    d.msg.is_response(),
                    d.layout.ptr_into_header
                );
                ctx.cover(&format!("{}|o{}", sh, case % 6));
                if d.layout.ptr_into_header {
                    ctx.count("pointer_into_header");
                }
                if d.msg.opt().is_some() {
                    ctx.count("with_opt");
                }
                one(ctx, &v.bytes, &d.msg, case as usize, &sh);
                ctx.sample(|| format!("{} :: {}", sh, short(&v.bytes)));
            }
            _ => {
                ctx.count("harness_error");
                ctx.notes.push(format!("harness: G-valid packet not decoded to its own message: {}", short(&v.bytes)));
            }
        }
    }
}

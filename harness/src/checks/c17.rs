//! C17 — results depend only on the arguments, never on earlier or concurrent calls.

use std::sync::Arc;

use dnssector::synth::r#gen::RR;
use dnssector::*;

use super::*;
use crate::gen::valid::{gen_label, gen_valid, Cfg};
use crate::model::msg::*;
use crate::model::text::valid_text;
use crate::prng::{hash_bytes, Rng};

#[derive(Clone, Debug)]
pub enum Call {
    Parse(Vec<u8>),
    Uncompress(Vec<u8>),
    Compress(Vec<u8>),
    Rename(Vec<u8>, Vec<u8>, Vec<u8>, bool),
    Synth(String),
    /// text name -> wire name with an optional default zone (used by record synthesis and the C table)
    RawName(Vec<u8>, Option<Vec<u8>>),
    /// offset translation asked for an offset that is no record boundary (panics by design); later calls must not care
    UncompressAt(Vec<u8>, usize),
    /// parse, then decompress in place through the object (`recompute()`)
    Recompute(Vec<u8>),
}

impl Call {
    pub fn kind(&self) -> &'static str {
        match self {
            Call::Parse(_) => "parse",
            Call::Uncompress(_) => "uncompress",
            Call::Compress(_) => "compress",
            Call::Rename(..) => "rename",
            Call::Synth(_) => "synth",
            Call::RawName(..) => "raw_name",
            Call::UncompressAt(..) => "uncompress_at",
            Call::Recompute(_) => "recompute",
        }
    }
    /// Evaluate; the result is reduced to bytes (verdict + output + view).
    pub fn eval(&self) -> Vec<u8> {
        match self {
            Call::Parse(x) => match DNSSector::new(x.clone()).unwrap().parse() {
                Err(_) => b"E".to_vec(),
                Ok(pp) => {
                    let mut o = b"O".to_vec();
                    o.extend_from_slice(pp.packet());
                    o.extend_from_slice(
                        format!(
                            "|{:?}{:?}{:?}{:?}{:?}|{}|{:?}{:?}{:?}|{}|{}",
                            pp.offset_question, pp.offset_answers, pp.offset_nameservers, pp.offset_additional, pp.offset_edns,
                            pp.edns_count, pp.ext_rcode, pp.edns_version, pp.ext_flags, pp.max_payload, pp.maybe_compressed
                        )
                        .as_bytes(),
                    );
                    o
                }
            },
            Call::Uncompress(x) => match Compress::uncompress(x) {
                Err(_) => b"E".to_vec(),
                Ok(u) => [b"O".to_vec(), u].concat(),
            },
            Call::Compress(x) => match Compress::compress(x) {
                Err(_) => b"E".to_vec(),
                Ok(u) => [b"O".to_vec(), u].concat(),
            },
            Call::Rename(x, t, s, suffix) => match DNSSector::new(x.clone()).unwrap().parse() {
                Err(_) => b"P".to_vec(),
                Ok(mut pp) => match Renamer::rename_with_raw_names(&mut pp, t, s, *suffix) {
                    Err(_) => b"E".to_vec(),
                    Ok(u) => [b"O".to_vec(), u].concat(),
                },
            },
            Call::Synth(t) => match RR::from_string(t) {
                Err(_) => b"E".to_vec(),
                Ok(rr) => [b"O".to_vec(), rr.packet].concat(),
            },
            Call::RawName(n, z) => match dnssector::synth::r#gen::raw_name_from_str(n, z.as_deref()) {
                Err(_) => b"E".to_vec(),
                Ok(w) => [b"O".to_vec(), w].concat(),
            },
            Call::Recompute(x) => match DNSSector::new(x.clone()).unwrap().parse() {
                Err(_) => b"P".to_vec(),
                Ok(mut pp) => match pp.recompute() {
                    Err(_) => b"E".to_vec(),
                    Ok(()) => {
                        let mut o = b"O".to_vec();
                        o.extend_from_slice(pp.packet());
                        o.extend_from_slice(format!("|{:?}{:?}{:?}{:?}{:?}|{}", pp.offset_question, pp.offset_answers, pp.offset_nameservers, pp.offset_additional, pp.offset_edns, pp.maybe_compressed).as_bytes());
                        o
                    }
                },
            },
            Call::UncompressAt(x, off) => match std::panic::catch_unwind(|| Compress::uncompress_with_previous_offset(x, *off)) {
                Err(_) => b"PANIC".to_vec(),
                Ok(Err(_)) => b"E".to_vec(),
                Ok(Ok((u, o))) => [b"O".to_vec(), u, o.to_be_bytes().to_vec()].concat(),
            },
        }
    }
    pub fn encode(&self) -> String {
        match self {
            Call::Parse(x) => format!("parse:{}", hex(x)),
            Call::Uncompress(x) => format!("uncompress:{}", hex(x)),
            Call::Compress(x) => format!("compress:{}", hex(x)),
            Call::Rename(x, t, s, f) => format!("rename:{}:{}:{}:{}", hex(x), hex(t), hex(s), *f as u8),
            Call::Synth(t) => format!("synth:{}", hex(t.as_bytes())),
            Call::RawName(n, z) => format!("rawname:{}:{}", hex(n), z.as_ref().map(|z| format!("z{}", hex(z))).unwrap_or_else(|| "none".into())),
            Call::UncompressAt(x, o) => format!("uncompressat:{}:{}", hex(x), o),
            Call::Recompute(x) => format!("recompute:{}", hex(x)),
        }
    }
    pub fn decode(s: &str) -> Option<Call> {
        let p: Vec<&str> = s.split(':').collect();
        Some(match p[0] {
            "parse" => Call::Parse(unhex(p.get(1)?)),
            "uncompress" => Call::Uncompress(unhex(p.get(1)?)),
            "compress" => Call::Compress(unhex(p.get(1)?)),
            "rename" => Call::Rename(unhex(p.get(1)?), unhex(p.get(2)?), unhex(p.get(3)?), *p.get(4)? == "1"),
            "synth" => Call::Synth(String::from_utf8(unhex(p.get(1)?)).ok()?),
            "rawname" => Call::RawName(unhex(p.get(1)?), p.get(2).and_then(|z| z.strip_prefix('z')).map(unhex)),
            "uncompressat" => Call::UncompressAt(unhex(p.get(1)?), p.get(2)?.parse().ok()?),
            "recompute" => Call::Recompute(unhex(p.get(1)?)),
            _ => return None,
        })
    }
}

/// A pool of calls built from one shared-suffix family, so that a leaked suffix table or cache
/// *would* change an output (a pool of unrelated packets could not see such a leak).
/// Look-alike pairs (A, B): B has A's length and differs from it in one byte inside a name that is only
/// reached through pointers (name-shaped bytes in opaque rdata). A verdict on A must not carry over to B.
pub fn lookalike_pairs(rng: &mut Rng) -> Vec<(Call, Call)> {
    use crate::gen::hostile::Asm;
    let mut out = vec![];
    // hand-built: every pointer of the packet designates the same name-shaped bytes inside opaque rdata (A), and
    // the look-alike (B) damages exactly those bytes, or moves a label boundary of the question across the target
    for _ in 0..4 {
        let l1 = gen_label(rng, &Cfg { long_names: false, mixed_case: false, ..Default::default() });
        let hidden = Name(vec![l1, b"com".to_vec()]).to_wire();
        let n_rec = rng.range(1, 4) as u16;
        let build = |hidden: &[u8]| {
            let mut a = Asm::header(0x1111, 0x8180, 1, 1 + n_rec, 0, 0);
            a.label(b"q").root().u16(1).u16(1);
            a.label(b"t").root().rrfix(T_TXT, 5, hidden.len() as u16);
            let t = a.pos();
            a.raw(hidden);
            for i in 0..n_rec {
                if i % 2 == 0 {
                    a.ptr(t);
                } else {
                    a.label(b"w").ptr(t);
                }
                a.rrfix(T_A, 9, 4).raw(&[10, 0, 0, i as u8]);
            }
            a.done()
        };
        let good = build(&hidden);
        let mut h2 = hidden.clone();
        let k = rng.below(h2.len() - 1);
        h2[k] = *rng.pick(&[0x40u8, b'.', 0x00, 0xc0, 0x3f]);
        let bad = build(&h2);
        if bad != good {
            out.push((Call::Parse(good.clone()), Call::Parse(bad)));
        }
        // question variant: same bytes except that the question swallows the boundary the pointers rely on
        let mut g2 = vec![0x12, 0x34, 0x81, 0x80, 0, 1, 0, 1, 0, 0, 0, 0];
        g2.extend_from_slice(b"\x07example\x03com\x00\x00\x01\x00\x01");
        g2.extend_from_slice(&[0xc0, 20, 0, 1, 0, 1, 0, 0, 0, 60, 0, 4, 10, 0, 0, 1]);
        let mut b2 = g2.clone();
        b2[12..25].copy_from_slice(b"\x0bexamplexcom\x00");
        out.push((Call::Parse(g2), Call::Parse(b2)));
    }
    for _ in 0..12 {
        let cfg = Cfg { compress_eighths: 7, max_records: 8, alphabet: 3, ..Default::default() };
        let v = gen_valid(rng, &cfg);
        if v.opaque_spans.is_empty() || v.pointers == 0 {
            continue;
        }
        for _ in 0..3 {
            let (off, len) = *rng.pick(&v.opaque_spans);
            let mut b = v.bytes.clone();
            let k = off + rng.below(len);
            b[k] = match rng.below(4) {
                0 => 0x40,
                1 => b'.',
                2 => 0x00,
                _ => b[k] ^ 0x80,
            };
            if b != v.bytes {
                out.push((Call::Parse(v.bytes.clone()), Call::Parse(b)));
            }
        }
    }
    // rename: two packets that differ only in the letter case of one name, same (target, source, suffix)
    for _ in 0..3 {
        let cfg = Cfg { long_names: false, mixed_case: false, ..Default::default() };
        let zone = Name(vec![gen_label(rng, &cfg), b"example".to_vec()]);
        let host = Name(vec![gen_label(rng, &cfg), gen_label(rng, &cfg)]).concat(&zone);
        let mut flipped = host.clone();
        for l in flipped.0.iter_mut().take(2) {
            for c in l.iter_mut() {
                if c.is_ascii_alphabetic() && rng.chance(2, 3) {
                    *c ^= 0x20;
                }
            }
        }
        if flipped == host {
            continue;
        }
        let mk = |n: &Name| {
            let mut m = Msg { id: 7, flags: 0x8180, ..Default::default() };
            m.question.push(Question { name: Name::from_labels(&[b"q"]), qtype: 1, qclass: 1 });
            m.sec[0].push(Record { name: n.clone(), rtype: T_A, class: 1, ttl: 5, rdata: RData::A([10, 0, 0, 1]) });
            m.sec[1].push(Record { name: zone.clone(), rtype: T_NS, class: 1, ttl: 5, rdata: RData::Name(n.clone()) });
            m.encode_literal()
        };
        let tgt = Name(vec![b"renamed".to_vec(), b"net".to_vec()]).to_wire();
        out.push((Call::Rename(mk(&host), tgt.clone(), zone.to_wire(), true), Call::Rename(mk(&flipped), tgt, zone.to_wire(), true)));
    }
    // recompute: a pointer-free packet exactly as long as a compressed one (whatever a decompression leaves behind
    // about "the last output" must not be mistaken for a statement about the next packet)
    for _ in 0..3 {
        let cfg = Cfg { compress_eighths: 8, max_records: 6, alphabet: 3, allow_header_targets: false, ..Default::default() };
        let v = gen_valid(rng, &cfg);
        if v.pointers == 0 || v.bytes.len() < 60 {
            continue;
        }
        let mut m = Msg { id: 9, flags: 0x8180, ..Default::default() };
        m.question.push(Question { name: Name::from_labels(&[b"q"]), qtype: 1, qclass: 1 });
        let base = m.encode_literal().len();
        // one TXT record "p. TXT <pad>": 3 + 10 + pad bytes
        if v.bytes.len() < base + 14 {
            continue;
        }
        let pad = v.bytes.len() - base - 13;
        m.sec[0].push(Record { name: Name::from_labels(&[b"p"]), rtype: T_TXT, class: 1, ttl: 5, rdata: RData::Opaque(vec![b'x'; pad]) });
        let lit = m.encode_literal();
        if lit.len() == v.bytes.len() {
            out.push((Call::Recompute(lit), Call::Recompute(v.bytes.clone())));
        }
    }
    out
}

pub fn pool(rng: &mut Rng) -> Vec<Call> {
    let cfg = Cfg { alphabet: 3, mixed_case: true, long_names: false, ..Default::default() };
    let zone = Name(vec![gen_label(rng, &cfg), b"example".to_vec(), b"com".to_vec()]);
    let mut hosts: Vec<Name> = (0..5).map(|_| Name(vec![gen_label(rng, &cfg)]).concat(&zone)).collect();
    // two names that differ only in bit 5 of bytes that are not letters (@ ` [ { ] } ^ ~): equal only for a
    // comparison that folds too much, whoever builds its folding table first
    if rng.chance(1, 2) {
        let a: Vec<u8> = (0..rng.range(2, 6)).map(|_| *rng.pick(b"@[]^ab1")).collect();
        let b: Vec<u8> = a.iter().map(|&c| if matches!(c, b'@' | b'[' | b']' | b'^') { c | 0x20 } else { c }).collect();
        if a != b {
            hosts.push(Name(vec![a]).concat(&zone));
            hosts.push(Name(vec![b]).concat(&zone));
        }
    }
    let mut calls = vec![];
    let n = rng.range(6, 10);
    for i in 0..n {
        let mut m = Msg { id: rng.u16(), flags: 0x8180, ..Default::default() };
        m.question.push(Question { name: hosts[i % hosts.len()].clone(), qtype: 1, qclass: 1 });
        for _ in 0..rng.range(1, 6) {
            let h = rng.pick(&hosts).clone();
            let s = rng.below(3);
            let rd = match rng.below(4) {
                0 => RData::A([10, 0, 0, rng.u8()]),
                1 => RData::Name(rng.pick(&hosts).clone()),
                2 => RData::Mx(10, rng.pick(&hosts).clone()),
                _ => RData::Soa(zone.clone(), rng.pick(&hosts).clone(), [7; 20]),
            };
            let rtype = match &rd {
                RData::A(_) => T_A,
                RData::Name(_) => *rng.pick(&[T_NS, T_CNAME, T_PTR]),
                RData::Mx(..) => T_MX,
                _ => T_SOA,
            };
            m.sec[s].push(Record { name: h, rtype, class: 1, ttl: rng.u32(), rdata: rd });
        }
        let lit = m.encode_literal();
        let comp = Compress::compress(&lit).unwrap_or_else(|_| lit.clone());
        calls.push(Call::Compress(lit.clone()));
        calls.push(Call::Uncompress(comp.clone()));
        calls.push(Call::Parse(comp.clone()));
        let tgt = Name(vec![b"renamed".to_vec(), b"net".to_vec()]).to_wire();
        calls.push(Call::Rename(comp.clone(), tgt, zone.to_wire(), true));
        // hostile inputs of the SAME length among them (a verdict must not be inherited from a look-alike)
        for _ in 0..3 {
            let mut bad = comp.clone();
            let k = rng.range(12, bad.len() - 1);
            bad[k] = match rng.below(3) {
                0 => bad[k] ^ 0xc0,
                1 => b'.',
                _ => 0x40,
            };
            calls.push(Call::Parse(bad));
        }
    }
    for _ in 0..4 {
        let t = valid_text(rng, None).text;
        // the same text with one field left out (TTL, class): whatever the verdict, it cannot depend on what the
        // thread synthesised before (a remembered "last TTL", "last class", "last origin" would show here)
        let toks: Vec<&str> = t.split(|c| c == ' ' || c == '\t').filter(|x| !x.is_empty()).collect();
        if toks.len() >= 5 && !t.contains('"') {
            for drop in [1usize, 2] {
                let cut: Vec<&str> = toks.iter().enumerate().filter(|(i, _)| *i != drop).map(|(_, x)| *x).collect();
                calls.push(Call::Synth(cut.join(" ")));
            }
        }
        calls.push(Call::Synth(t));
    }
    // owner names the text grammar refuses for different reasons, next to each other: a verdict reached half-way
    // through one name (a flag, a counter) must not carry over into the next one
    for owner in ["ab..cd.", "a.bbbbbbbbbbbbbbbbbbbbbbbbbbbbbbbbbbbbbbbbbbbbbbbbbbbbbbbbbbbbbbbbbbbbbbbb.c.", "1.2.3.", "10.20.", "7.", "1.2.3", "x1.2.3.", "-a.example."] {
        calls.push(Call::Synth(format!("{} 60 IN A 192.0.2.1", owner)));
        calls.push(Call::RawName(owner.as_bytes().to_vec(), None));
    }
    // calls that FAIL belong to the pool as well: state abandoned on an error path is the likeliest leak
    {
        let long = crate::gen::valid::name_of_wire_len(rng, 253);
        let mut m = Msg { id: rng.u16(), flags: 0x8180, ..Default::default() };
        m.question.push(Question { name: Name(vec![b"www".to_vec()]).concat(&zone), qtype: 1, qclass: 1 });
        m.sec[0].push(Record { name: Name(vec![b"a".to_vec()]).concat(&zone), rtype: T_A, class: 1, ttl: 1, rdata: RData::A([1, 1, 1, 1]) });
        let lit = m.encode_literal();
        // a rewritten name would exceed 255 bytes: the rename must fail, every time, and leave nothing behind
        calls.push(Call::Rename(lit.clone(), long.to_wire(), zone.to_wire(), true));
        calls.push(Call::Rename(lit.clone(), Name::from_labels(&[b"ok", b"net"]).to_wire(), zone.to_wire(), true));
        calls.push(Call::UncompressAt(lit.clone(), 13));
        calls.push(Call::UncompressAt(lit.clone(), 12));
        calls.push(Call::Compress(lit[..lit.len() - 3].to_vec()));
        calls.push(Call::Uncompress(lit[..lit.len() - 1].to_vec()));
        calls.push(Call::Synth("broken 300 IN A 1.2.3".into()));
        let ztxt: String = zone.0.iter().map(|l| l.iter().map(|&c| if c.is_ascii_alphanumeric() { c as char } else { 'x' }).collect::<String>()).collect::<Vec<_>>().join(".");
        calls.push(Call::Synth(format!("{}. 300 IN NS ns1", ztxt)));
    }
    // two packets with more than 32 distinct suffixes sharing most of their names (the suffix table wraps)
    {
        let many: Vec<Name> = (0..rng.range(36, 48)).map(|i| Name(vec![format!("h{}", i).into_bytes(), gen_label(rng, &cfg)]).concat(&zone)).collect();
        for variant in 0..2 {
            let mut m = Msg { id: rng.u16(), flags: 0x8180, ..Default::default() };
            m.question.push(Question { name: many[variant].clone(), qtype: 1, qclass: 1 });
            for (i, n) in many.iter().enumerate() {
                if (i + variant) % 7 != 0 {
                    m.sec[i % 3].push(Record { name: n.clone(), rtype: T_A, class: 1, ttl: i as u32, rdata: RData::A([10, 1, 1, i as u8]) });
                }
            }
            for n in many.iter().rev().take(12) {
                m.sec[1].push(Record { name: n.clone(), rtype: T_NS, class: 1, ttl: 7, rdata: RData::Name(many[3].clone()) });
            }
            let lit = m.encode_literal();
            calls.push(Call::Compress(lit.clone()));
            calls.push(Call::Rename(lit, Name::from_labels(&[b"moved", b"org"]).to_wire(), zone.to_wire(), true));
        }
    }
    // the same text names with different default zones, and with none
    for n in [&b"ns1"[..], b"www", b"ns1.", b"a.b"] {
        calls.push(Call::RawName(n.to_vec(), None));
        calls.push(Call::RawName(n.to_vec(), Some(zone.to_wire())));
        calls.push(Call::RawName(n.to_vec(), Some(Name::from_labels(&[b"other", b"org"]).to_wire())));
    }
    calls.push(Call::RawName(b"bad..name".to_vec(), Some(zone.to_wire())));
    // a couple of unrelated packets as well
    for _ in 0..2 {
        let v = gen_valid(rng, &Cfg::default());
        calls.push(Call::Parse(v.bytes.clone()));
        calls.push(Call::Uncompress(v.bytes));
    }
    calls
}

fn base_in_fresh_process(calls: &[Call]) -> Option<Vec<u64>> {
    // every call evaluated alone, in its own process: no earlier call can have influenced it
    let exe = std::env::current_exe().ok()?;
    let mut out = vec![];
    for c in calls {
        let o = std::process::Command::new(&exe).arg("pure-one").arg(c.encode()).output().ok()?;
        if !o.status.success() {
            return None;
        }
        out.push(u64::from_str_radix(String::from_utf8_lossy(&o.stdout).trim(), 16).ok()?);
    }
    Some(out)
}

pub fn pure_one(arg: &str) -> i32 {
    match Call::decode(arg) {
        Some(c) => {
            println!("{:016x}", hash_bytes(&c.eval()));
            0
        }
        None => 2,
    }
}

pub fn run(ctx: &mut Ctx) {
    let thorough = ctx.tier == "thorough";
    // (a) + (b): pools
    let npools = ctx.scaled(if thorough { 40_000 } else if ctx.tier == "tsan" { 64 } else { 1_600 });
    let fresh_every = if thorough { 40 } else { 50 };
    for case in ctx.phase("pools", npools) {
        if ctx.out_of_time() {
            break;
        }
        ctx.begin_case(case);
        let mut rng = Rng::for_case(ctx.seed, "c17", 0, case);
        let calls = Arc::new(pool(&mut rng));
        let in_proc: Vec<u64> = calls.iter().map(|c| hash_bytes(&c.eval())).collect();
        let base: Vec<u64> = if case % fresh_every == 0 && ctx.tier != "tsan" {
            match base_in_fresh_process(&calls) {
                Some(b) => {
                    ctx.count("pools_with_fresh_process_baseline");
                    ctx.count_n("fresh_process_evaluations", b.len() as u64);
                    b
                }
                None => {
                    ctx.count("harness_error");
                    ctx.notes.push("harness: could not compute the fresh-process baseline".into());
                    in_proc.clone()
                }
            }
        } else {
            in_proc.clone()
        };
        for (i, c) in calls.iter().enumerate() {
            ctx.cover(&format!("{}|{}", c.kind(), base[i] % 64));
        }
        let mut report = |ctx: &mut Ctx, i: usize, how: &str| {
            let c = &calls[i];
            ctx.violation("C17", format!("{}|{}", c.kind(), how), format!("{} gives a different result {}", c.kind(), how), c.encode().as_bytes());
        };
        for i in 0..calls.len() {
            if in_proc[i] != base[i] {
                report(ctx, i, "after-earlier-calls-on-the-thread");
            }
        }
        // (a) random sequences  ... f(y), f(x) ...  on this thread
        for _ in 0..6 {
            let mut order: Vec<usize> = (0..calls.len()).collect();
            for i in (1..order.len()).rev() {
                order.swap(i, rng.below(i + 1));
            }
            for &i in &order {
                ctx.evaluations += 1;
                ctx.count("sequential_evaluations");
                if hash_bytes(&calls[i].eval()) != base[i] {
                    report(ctx, i, "after-earlier-calls-on-the-thread");
                }
            }
        }
        // (a') look-alike pairs evaluated back to back, in both orders
        if case % 4 == 0 {
            for (a, b) in lookalike_pairs(&mut rng) {
                let (ha, hb) = (hash_bytes(&a.eval()), hash_bytes(&b.eval()));
                // the reference for each: evaluated after an unrelated call of a different size
                let unrelated = Call::Synth("x.example. 1 IN A 1.2.3.4".into());
                let _ = unrelated.eval();
                let ra = hash_bytes(&a.eval());
                let _ = unrelated.eval();
                let big = Call::Parse(vec![0u8; 4000]);
                let _ = big.eval();
                let rb = hash_bytes(&b.eval());
                let hb2 = {
                    let _ = a.eval();
                    hash_bytes(&b.eval())
                };
                ctx.evaluations += 6;
                ctx.count("lookalike_pairs");
                ctx.count(&format!("lookalike_kind:{}", b.kind()));
                if ha != ra || hb != rb || hb2 != rb {
                    ctx.violation("C17", format!("{}|result-depends-on-the-previous-input", b.kind()), format!("{} gives a different result right after the same call on a look-alike input ({})", b.kind(), a.encode().chars().take(200).collect::<String>()), b.encode().as_bytes());
                }
            }
        }
        // (b) the same pool concurrently on several threads, each in its own order
        let nthreads = 8;
        let mut hs = vec![];
        for t in 0..nthreads {
            let calls = calls.clone();
            let base = base.clone();
            let mut trng = Rng::for_case(ctx.seed, "c17-thread", case, t);
            hs.push(std::thread::spawn(move || {
                let mut bad = vec![];
                let mut n = 0u64;
                for _ in 0..3 {
                    let mut order: Vec<usize> = (0..calls.len()).collect();
                    for i in (1..order.len()).rev() {
                        order.swap(i, trng.below(i + 1));
                    }
                    for &i in &order {
                        n += 1;
                        if hash_bytes(&calls[i].eval()) != base[i] {
                            bad.push(i);
                        }
                    }
                }
                (bad, n)
            }));
        }
        for h in hs {
            match h.join() {
                Ok((bad, n)) => {
                    ctx.evaluations += n;
                    ctx.count_n("concurrent_evaluations", n);
                    for i in bad {
                        report(ctx, i, "under-concurrent-calls");
                    }
                }
                Err(_) => ctx.violation("C17", "thread-panicked".into(), "a worker thread panicked".into(), &[]),
            }
        }
        if case < 2 {
            ctx.sample(|| format!("pool of {} calls, e.g. {}", calls.len(), &calls[0].encode()[..calls[0].encode().len().min(200)]));
        }
    }
    // (a'') the public name checker called a very large number of times without any parse in between
    for case in ctx.phase("name-checker-repetition", 16) {
        ctx.begin_case(case);
        let mut rng = Rng::for_case(ctx.seed, "c17-names", 0, case);
        let k = crate::gen::hostile::N_BOUNDARY;
        let _ = k;
        let chain = crate::gen::hostile::boundary(&mut rng, 3, true).bytes; // a name through exactly 16 pointers
        let off = chain.len() - 16; // owner of the last record: pointer + 10 + 4
        let first = Compress::check_compressed_name(&chain, off).map_err(|e| e.to_string());
        let reps = if ctx.tier == "thorough" { 40_000 } else { 6_000 };
        let mut differs = None;
        for i in 0..reps {
            let r = Compress::check_compressed_name(&chain, off).map_err(|e| e.to_string());
            if r != first && differs.is_none() {
                differs = Some((i, r));
            }
        }
        ctx.evaluations += reps as u64;
        ctx.count_n("name_checker_repetitions", reps as u64);
        if first.is_err() {
            ctx.count("harness_error");
            ctx.notes.push("harness: the 16-pointer name is not accepted by the name checker".into());
        }
        if let Some((i, r)) = differs {
            ctx.violation("C17", "check_compressed_name|result-depends-on-earlier-calls".into(), format!("call #{} on the same bytes and offset returns {:?}, the first call returned {:?}", i, r, first), &chain);
        }
    }
    // (c') more than 65536 syntheses in a row on one thread (whatever feeds the transaction id must not run out)
    for case in ctx.phase("many-syntheses", if ctx.tier == "tsan" { 1 } else { 4 }) {
        ctx.begin_case(case);
        let reps = 70_000u64;
        let r = guarded(u64::MAX / 2, move || {
            let mut distinct = std::collections::BTreeSet::new();
            for i in 0..reps {
                let pp = if case % 2 == 0 || i % 2 == 0 { ParsedPacket::empty() } else { r#gen::query(b"example.com", Type::A, Class::IN).unwrap() };
                distinct.insert(pp.tid());
            }
            distinct.len()
        });
        ctx.evaluations += reps;
        ctx.count_n("syntheses_in_a_row", reps);
        match r {
            Err(p) => ctx.violation("C17", format!("synthesis|{}", p.class()), format!("within {} syntheses in a row on one thread: {}", reps, p.msg), &[]),
            Ok(d) => ctx.maximum("distinct_ids_in_70000_syntheses", d as u64),
        }
    }
    // (c) ParsedPacket::empty(): only the transaction id may vary
    let n = ctx.scaled(if thorough { 400_000 } else { 20_000 });
    let mut ids = std::collections::BTreeSet::new();
    let mut first: Option<Vec<u8>> = None;
    for case in ctx.phase("empty", n) {
        ctx.begin_case(case);
        ctx.evaluations += 1;
        let pp = ParsedPacket::empty();
        let b = pp.packet().to_vec();
        ids.insert(u16::from_be_bytes([b[0], b[1]]));
        let view = format!("{:?}{:?}{:?}{:?}{:?}{}{:?}{:?}{:?}{}{}{:?}", pp.offset_question, pp.offset_answers, pp.offset_nameservers, pp.offset_additional, pp.offset_edns, pp.edns_count, pp.ext_rcode, pp.edns_version, pp.ext_flags, pp.maybe_compressed, pp.max_payload, pp.cached);
        let rest = [b[2..].to_vec(), view.into_bytes()].concat();
        match &first {
            None => first = Some(rest),
            Some(f) => {
                if *f != rest {
                    ctx.violation("C17", "empty|varies-beyond-the-id".into(), format!("ParsedPacket::empty() differs in more than the transaction id: {}", short(&b)), &b);
                }
            }
        }
        ctx.count("empty_packets");
    }
    ctx.maximum("distinct_ids_of_empty_packets", ids.len() as u64);
    if n >= 1000 && ids.len() < 2 && ctx.only_case.is_none() && ctx.only_phase.is_none() {
        ctx.violation("C17", "empty|id-not-random".into(), format!("{} fresh packets share one transaction id", n), &[]);
    }
}

//! C02 — the parser accepts exactly the well-formed packets.

use super::*;
use crate::gen::hostile::{boundary, parse_input, N_BOUNDARY};
use crate::model::refparse::{refparse, STRICT};
use crate::prng::Rng;

pub fn one(ctx: &mut Ctx, x: &[u8], family: &str, expect: Option<bool>) {
    ctx.evaluations += 1;
    let r = refparse(x, STRICT);
    let ref_ok = r.is_ok();
    if let Some(e) = expect {
        if e != ref_ok {
            // the construction and the reference disagree: a harness defect, never a verdict on the library
            ctx.count("harness_error");
            ctx.notes.push(format!(
                "harness: family {} built as {} but refparse says {:?}: {}",
                family,
                e,
                r.as_ref().err().map(|r| (r.clause, r.name_err, r.at)),
                short(x)
            ));
            return;
        }
    }
    let lib = match lib_parse(x) {
        Err(_) => {
            // a crash is C01's business; here it only means "no verdict"
            ctx.count("no_verdict_panic");
            return;
        }
        Ok(v) => v,
    };
    let key = match &r {
        Ok(d) => {
            ctx.count("wellformed");
            let mut types: Vec<u16> = d.msg.sec.iter().flatten().map(|r| r.rtype).collect();
            types.sort();
            types.dedup();
            format!("accept|{}|{:?}|ch{}|hdr{}", family, types, d.layout.max_chain.min(17), d.layout.ptr_into_header)
        }
        Err(rj) => {
            let c = format!(
                "{}{}",
                rj.clause.as_str(),
                rj.name_err.map(|e| format!("/{}", e.as_str())).unwrap_or_default()
            );
            ctx.count(&format!("clause:{}", c));
            format!("reject|{}|{}", family, c)
        }
    };
    ctx.cover(&key);
    ctx.count(&format!("family:{}:{}", family, if ref_ok { "wf" } else { "mf" }));
    match (&lib, &r) {
        (Ok(_), Err(rj)) => ctx.violation(
            "C02",
            format!(
                "accepts-malformed|{}{}",
                rj.clause.as_str(),
                rj.name_err.map(|e| format!("/{}", e.as_str())).unwrap_or_default()
            ),
            format!("family {}: library accepts, reference rejects at offset {}", family, rj.at),
            x,
        ),
        (Err(e), Ok(_)) => ctx.violation(
            "C02",
            format!("rejects-wellformed|{}", family),
            format!("family {}: reference accepts, library says: {}", family, e),
            x,
        ),
        _ => {}
    }
    ctx.sample(|| format!("{} ref={} lib={} {}", family, ref_ok, lib.is_ok(), short(x)));
}

pub fn run(ctx: &mut Ctx) {
    // every boundary family, both sides, several draws each
    let reps = if ctx.tier == "thorough" { 2000 } else { 60 };
    let nb = (N_BOUNDARY * 2 * reps) as u64;
    for case in ctx.phase("boundary", nb) {
        ctx.begin_case(case);
        let mut rng = Rng::for_case(ctx.seed, "boundary", 0, case);
        let k = (case as usize) % N_BOUNDARY;
        let legal = (case as usize / N_BOUNDARY) % 2 == 0;
        let inp = boundary(&mut rng, k, legal);
        ctx.count(&format!("boundary:{}:{}", inp.family, if legal { "legal" } else { "illegal" }));
        one(ctx, &inp.bytes, inp.family, inp.expect);
    }
    let n = ctx.scaled(if ctx.tier == "thorough" { 60_000_000 } else { 2_400_000 });
    for case in ctx.phase("parse", n) {
        if case % 4096 == 0 && ctx.out_of_time() {
            break;
        }
        ctx.begin_case(case);
        let mut rng = Rng::for_case(ctx.seed, "parse", 0, case);
        let inp = parse_input(&mut rng, case);
        one(ctx, &inp.bytes, inp.family, inp.expect);
    }
}

//! C07 — renaming rewrites exactly the matching names and nothing else.

use dnssector::*;

use super::*;
use crate::gen::valid::{gen_label, gen_valid, name_of_wire_len, Cfg};
use crate::model::msg::*;
use crate::model::refparse::{refparse, STRICT};
use crate::prng::Rng;

/// Abstract semantics of renaming. Err(()) when a rewritten name would exceed 255 bytes.
pub fn model_rename(m: &Msg, target: &Name, source: &Name, suffix: bool) -> Result<(Msg, usize), ()> {
    let mut hits = 0usize;
    let mut overflow = false;
    let mut rn = |n: &Name| -> Name {
        let matched = if suffix { n.ends_with_nocase(source) } else { n.eq_nocase(source) };
        if !matched {
            return n.clone();
        }
        hits += 1;
        let keep = n.0.len() - source.0.len();
        let out = Name(n.0[..keep].to_vec()).concat(target);
        if out.wire_len() > 255 {
            overflow = true;
        }
        out
    };
    let mut o = m.clone();
    for q in o.question.iter_mut() {
        q.name = rn(&q.name);
    }
    for s in 0..3 {
        for r in o.sec[s].iter_mut() {
            if r.is_opt() {
                continue;
            }
            r.name = rn(&r.name);
            r.rdata = match &r.rdata {
                RData::Name(n) => RData::Name(rn(n)),
                RData::Mx(p, n) => RData::Mx(*p, rn(n)),
                RData::Soa(a, b, meta) => RData::Soa(rn(a), rn(b), *meta),
                other => other.clone(),
            };
        }
    }
    if overflow {
        Err(())
    } else {
        Ok((o, hits))
    }
}

fn all_names(m: &Msg) -> Vec<Name> {
    let mut v: Vec<Name> = m.question.iter().map(|q| q.name.clone()).collect();
    for r in m.sec.iter().flatten() {
        if r.is_opt() {
            continue;
        }
        v.push(r.name.clone());
        v.extend(r.rdata.names().into_iter().cloned());
    }
    v
}

/// Draw (target, source, suffix-mode) aimed at the message's own names.
pub fn draw_args(rng: &mut Rng, m: &Msg) -> (Name, Name, bool, &'static str) {
    let cfg = Cfg { long_names: false, ..Default::default() };
    let names: Vec<Name> = all_names(m).into_iter().filter(|n| !n.is_root()).collect();
    let suffix = rng.chance(1, 2);
    let fresh = |rng: &mut Rng| -> Name {
        let k = rng.range(1, 3);
        Name((0..k).map(|_| gen_label(rng, &cfg)).collect())
    };
    if names.is_empty() {
        return (fresh(rng), fresh(rng), suffix, "no-names");
    }
    let base = rng.pick(&names).clone();
    let (source, kind): (Name, &'static str) = match rng.below(10) {
        0 | 1 => (base.clone(), "whole-name"),
        2 | 3 | 4 => {
            // a suffix at some label depth
            let k = rng.below(base.0.len());
            (Name(base.0[k..].to_vec()), "suffix-at-depth")
        }
        5 => {
            // partial-label near miss: drop the first byte of the first label
            let mut n = base.clone();
            if n.0[0].len() > 1 {
                n.0[0].remove(0);
                (n, "partial-label")
            } else {
                n.0[0].push(b'x');
                (n, "longer-label")
            }
        }
        6 => {
            // case variant
            let mut n = base.clone();
            for l in n.0.iter_mut() {
                for c in l.iter_mut() {
                    if rng.chance(1, 2) {
                        *c = if c.is_ascii_lowercase() { c.to_ascii_uppercase() } else { c.to_ascii_lowercase() };
                    }
                }
            }
            (n, "case-variant")
        }
        7 => {
            // same bytes, different label split (must NOT match): merge the first two labels
            let mut n = base.clone();
            if n.0.len() >= 2 && n.0[0].len() + n.0[1].len() + 1 <= 63 {
                let second = n.0.remove(1);
                n.0[0].push(second.len() as u8 | 0x20);
                n.0[0].extend_from_slice(&second);
                // keep it a legal label: replace control bytes
                for c in n.0[0].iter_mut() {
                    if *c < 0x21 || *c == 0x7f || *c == b'.' || *c == b'\\' {
                        *c = b'-';
                    }
                }
                (n, "different-label-split")
            } else {
                (base.clone(), "whole-name")
            }
        }
        8 => {
            if rng.chance(1, 2) {
                (fresh(rng), "absent")
            } else {
                // one byte differs in bit 5 only, and it is not a letter: a different name
                let mut n = base.clone();
                let mut cands: Vec<(usize, usize)> = vec![];
                for (li, l) in n.0.iter().enumerate() {
                    for (bi, &c) in l.iter().enumerate() {
                        let f = c ^ 0x20;
                        if !c.is_ascii_alphabetic() && !(f < 0x21 || f == 0x7f || f == b'.' || f == b'\\') {
                            cands.push((li, bi));
                        }
                    }
                }
                if cands.is_empty() {
                    (fresh(rng), "absent")
                } else {
                    let (li, bi) = *rng.pick(&cands);
                    n.0[li][bi] ^= 0x20;
                    (n, "bit5-near-miss")
                }
            }
        }
        _ => {
            let k = rng.below(base.0.len());
            (Name(base.0[k..].to_vec()), "suffix-at-depth")
        }
    };
    let target = match rng.below(10) {
        0 => source.clone(), // identity
        1 | 2 => {
            // grow towards the 255 limit (the longest legal name itself included)
            let w = *rng.pick(&[255usize, 255, 254, 253, 250, 230, 200]);
            name_of_wire_len(rng, w)
        }
        3 => rng.pick(&names).clone(),
        4 => Name(vec![gen_label(rng, &cfg)]),
        _ => fresh(rng),
    };
    (target, source, suffix, kind)
}

pub fn one(ctx: &mut Ctx, x: &[u8], rng: &mut Rng, shape: &str) {
    one_args(ctx, x, rng, shape, None)
}

/// A label boundary that exists only in the *bytes*: the source's first label has a length (45, 48..57) that
/// is itself a legal host-name character ('-', '0'..'9'), and the message holds names in which that length
/// byte and the label sit INSIDE a longer label. In suffix mode these must not match.
pub fn embedded_boundary(rng: &mut Rng) -> (Msg, Name, Name, bool) {
    let cfg = Cfg { alphabet: 6, long_names: false, ..Default::default() };
    let l = *rng.pick(&[45usize, 48, 49, 50, 52, 55, 57]);
    let first: Vec<u8> = (0..l).map(|_| *rng.pick(b"abcxyz019-")).collect();
    let rest = Name((0..rng.range(1, 2)).map(|_| gen_label(rng, &cfg)).collect());
    let source = Name(vec![first.clone()]).concat(&rest);
    let embed = |rng: &mut Rng| -> Name {
        let k = rng.range(1, 63 - 1 - l);
        let mut lab: Vec<u8> = (0..k).map(|_| *rng.pick(b"abcxyz019")).collect();
        lab.push(l as u8);
        lab.extend_from_slice(&first);
        Name(vec![lab]).concat(&rest)
    };
    let mut m = Msg { id: rng.u16(), flags: 0x8180, ..Default::default() };
    let qn = match rng.below(3) {
        0 => embed(rng),
        1 => source.clone(),
        _ => Name(vec![gen_label(rng, &cfg)]).concat(&rest),
    };
    m.question.push(Question { name: qn, qtype: 1, qclass: 1 });
    let rec = |name: Name, rtype: u16, rdata: RData| Record { name, rtype, class: 1, ttl: 300, rdata };
    for _ in 0..rng.range(2, 6) {
        let n = match rng.below(4) {
            0 => source.clone(),
            1 => Name(vec![gen_label(rng, &cfg)]).concat(&source),
            _ => embed(rng),
        };
        let s = rng.below(3);
        match rng.below(4) {
            0 => m.sec[s].push(rec(n, T_A, RData::A([192, 0, 2, 7]))),
            1 => {
                let t = embed(rng);
                m.sec[s].push(rec(n, T_CNAME, RData::Name(t)))
            }
            2 => {
                let t = embed(rng);
                m.sec[s].push(rec(n, T_MX, RData::Mx(5, t)))
            }
            _ => {
                let t = embed(rng);
                m.sec[s].push(rec(t, T_NS, RData::Name(n)))
            }
        }
    }
    let target = if rng.chance(1, 2) { Name(vec![gen_label(rng, &cfg)]) } else { Name(vec![gen_label(rng, &cfg), gen_label(rng, &cfg), gen_label(rng, &cfg)]) };
    (m, target, source, rng.chance(7, 8))
}

pub fn one_args(ctx: &mut Ctx, x: &[u8], rng: &mut Rng, shape: &str, forced: Option<(Name, Name, bool, &'static str)>) {
    let d = match refparse(x, STRICT) {
        Ok(d) => d,
        Err(_) => return,
    };
    let (target, source, suffix, kind) = match forced {
        Some(f) => f,
        None => draw_args(rng, &d.msg),
    };
    // the property quantifies over well-formed, pointer-free, non-root names
    let wf = |n: &Name| {
        !n.is_root()
            && n.wire_len() <= 255
            && n.0.iter().all(|l| !l.is_empty() && l.len() <= 63 && l.iter().all(|&c| !(c < 0x20 || c == 0x7f || c == b'.' || c == b'\\')))
    };
    if !wf(&target) || !wf(&source) {
        ctx.count("args_not_wellformed_skipped");
        return;
    }
    ctx.evaluations += 1;
    let (tw, sw) = (target.to_wire(), source.to_wire());
    let expect = model_rename(&d.msg, &target, &source, suffix);
    let identity = target.eq_nocase(&source);
    let mut pp = match lib_parse(x) {
        Ok(Ok(pp)) => pp,
        _ => return,
    };
    let args = format!("target={:?} source={:?} suffix={} ({})", target, source, suffix, kind);
    let viol = |ctx: &mut Ctx, cls: &str, detail: String| {
        ctx.violation("C07", format!("rename|{}", cls), format!("{} {}: {}", shape, args, detail), x);
    };
    ctx.count(&format!("kind:{}:{}", kind, if suffix { "suffix" } else { "exact" }));
    let out = guarded(crate::mon::work_budget(x.len()) * 4, || {
        Renamer::rename_with_raw_names(&mut pp, &tw, &sw, suffix).map_err(|e| e.to_string())
    });
    let out = match out {
        Err(p) => {
            let k = if p.is_budget() { "non-termination" } else { "panic" };
            return viol(ctx, &format!("{}|{}", k, p.class()), p.msg.clone());
        }
        Ok(o) => o,
    };
    match (&out, &expect) {
        (Ok(bytes), Err(())) => {
            ctx.count("expected_overflow");
            return viol(ctx, "overflow-not-reported", format!("a rewritten name exceeds 255 bytes but a packet was produced: {}", short(bytes)));
        }
        (Err(_), Err(())) => {
            ctx.count("expected_overflow");
            ctx.count("overflow_reported");
        }
        (Err(e), Ok(_)) => return viol(ctx, "unexpected-error", e.clone()),
        (Ok(bytes), Ok((want, hits))) => {
            ctx.count("renamed");
            if *hits > 0 {
                ctx.count("with_matches");
                ctx.count_n("names_rewritten", *hits as u64);
            }
            let dr = match refparse(bytes, STRICT) {
                Err(r) => {
                    return viol(
                        ctx,
                        &format!("output-rejected|{}{}", r.clause.as_str(), r.name_err.map(|e| format!("/{}", e.as_str())).unwrap_or_default()),
                        format!("at {}: {}", r.at, short(bytes)),
                    )
                }
                Ok(d) => d,
            };
            if !matches!(lib_parse(bytes), Ok(Ok(_))) {
                return viol(ctx, "output-rejected-by-parser", short(bytes));
            }
            if let Some(diff) = dr.msg.diff(want, true, false) {
                let cls = if diff.contains("count") { "record-sequence-changed" } else { "wrong-result" };
                return viol(ctx, cls, format!("{} :: {}", diff, short(bytes)));
            }
            if identity {
                ctx.count("identity_renames");
                // identity rename: the uncompressed bytes are unchanged up to name case
                let a = Compress::uncompress(bytes).ok();
                let b = d.msg.encode_literal();
                match a {
                    Some(a) if a.len() == b.len() && refparse(&a, STRICT).map(|da| da.msg.diff(&d.msg, true, false).is_none()).unwrap_or(false) => {}
                    _ => return viol(ctx, "identity-changes-message", short(bytes)),
                }
            }
        }
    }
    // the packet-level wrapper: same result, object stays usable; on error the object is untouched
    let mut pp2 = match lib_parse(x) {
        Ok(Ok(pp)) => pp,
        _ => return,
    };
    let r2 = guarded(crate::mon::work_budget(x.len()) * 4, || {
        let r = pp2.rename_with_raw_names(&tw, &sw, suffix).map_err(|e| e.to_string());
        let bytes = pp2.packet.as_ref().map(|p| p.clone());
        (r, bytes)
    });
    match r2 {
        Err(p) => viol(ctx, &format!("wrapper|{}", p.class()), p.msg.clone()),
        Ok((r, bytes)) => {
            ctx.count("wrapper_calls");
            match (r, bytes, &expect) {
                (_, None, _) => viol(ctx, "wrapper|packet-lost", "the object holds no packet after the call".into()),
                (Ok(()), Some(b), Ok((want, _))) => match refparse(&b, STRICT) {
                    Ok(db) if db.msg.diff(want, true, false).is_none() => {}
                    _ => viol(ctx, "wrapper|wrong-result", short(&b)),
                },
                (Err(_), Some(b), Err(())) => {
                    if b != x {
                        viol(ctx, "wrapper|failed-call-changed-packet", short(&b));
                    }
                }
                (Ok(()), Some(b), Err(())) => viol(ctx, "wrapper|overflow-not-reported", short(&b)),
                (Err(e), Some(_), Ok(_)) => viol(ctx, "wrapper|unexpected-error", e),
            }
        }
    }
}

pub fn run(ctx: &mut Ctx) {
    let n = ctx.scaled(if ctx.tier == "thorough" { 8_000_000 } else { 320_000 });
    for case in ctx.phase("valid", n) {
        if case % 1024 == 0 && ctx.out_of_time() {
            break;
        }
        ctx.begin_case(case);
        let mut rng = Rng::for_case(ctx.seed, "c07", 0, case);
        let cfg = Cfg {
            alphabet: *rng.pick(&[3usize, 4, 6, 24]),
            // now and then a packet well beyond 1 KiB, with pointers to far offsets
            max_records: if rng.chance(1, 12) { 60 } else { 10 },
            long_names: rng.chance(1, 4),
            ..Default::default()
        };
        let v = gen_valid(&mut rng, &cfg);
        match refparse(&v.bytes, STRICT) {
            Ok(d) if d.msg == v.msg => {
                let mut types: Vec<u16> = d.msg.sec.iter().flatten().map(|r| r.rtype).filter(|t| [T_NS, T_CNAME, T_PTR, T_MX, T_SOA, T_DNAME, T_OPT].contains(t)).collect();
                types.sort();
                types.dedup();
                let sh = format!("opt{:?} t{:?} ptr{}", v.opt_pos, types, (v.pointers > 0) as u8);
                ctx.cover(&format!("{}|{}", sh, case % 20));
                one(ctx, &v.bytes, &mut rng, &sh);
                ctx.sample(|| format!("{} :: {}", sh, short(&v.bytes)));
            }
            _ => {
                ctx.count("harness_error");
                ctx.notes.push(format!("harness: G-valid packet not decoded to its own message: {}", short(&v.bytes)));
            }
        }
    }
    // label boundaries that exist only in the bytes (see `embedded_boundary`)
    let e = ctx.scaled(if ctx.tier == "thorough" { 400_000 } else { 16_000 });
    for case in ctx.phase("embedded-boundary", e) {
        if case % 256 == 0 && ctx.out_of_time() {
            break;
        }
        ctx.begin_case(case);
        let mut rng = Rng::for_case(ctx.seed, "c07-embedded", 0, case);
        let (msg, target, source, suffix) = embedded_boundary(&mut rng);
        let x = if rng.chance(1, 2) { msg.encode_literal() } else { Compress::compress(&msg.encode_literal()).unwrap_or_else(|_| msg.encode_literal()) };
        ctx.cover(&format!("embedded|l{}|{}", source.0[0].len(), case % 10));
        ctx.count("embedded_boundary_cases");
        one_args(ctx, &x, &mut rng, "embedded-boundary", Some((target, source, suffix, "embedded-boundary")));
    }
    // stress messages of C06 (deep nesting, many suffixes): the renamer compresses its output with the same dictionary
    let m = ctx.scaled(if ctx.tier == "thorough" { 400_000 } else { 16_000 });
    for case in ctx.phase("stress", m) {
        if case % 256 == 0 && ctx.out_of_time() {
            break;
        }
        ctx.begin_case(case);
        let mut rng = Rng::for_case(ctx.seed, "c06-stress", 0, case);
        let fam = super::c06::stress_family(case);
        let msg = super::c06::stress(&mut rng, fam);
        let x = msg.encode_literal();
        ctx.cover(&format!("stress|{}|{}", fam, case % 10));
        one(ctx, &x, &mut rng, super::c06::STRESS[fam]);
    }
}

//! C11 — deleting records while iterating is safe, exact and terminates.
//!
//! History monitor with unique ids: every record of the section under test
//! carries a unique TTL, so each yield and each deletion is unambiguous.

use dnssector::*;

use super::hist::RELAXED;
use super::*;
use crate::gen::hostile::Asm;
use crate::model::msg::*;
use crate::model::refparse::refparse;
use crate::prng::Rng;

#[derive(Clone, Copy, Debug, PartialEq, Eq)]
pub enum Kind {
    Answer,
    Authority,
    AdditionalSkipOpt,
    AdditionalInclOpt,
    Question,
}

#[derive(Clone, Copy, Debug, PartialEq, Eq)]
pub enum OptAt {
    None,
    First,
    Middle,
    Last,
}

const OPT_ID: u32 = 0x00ab_8000;

/// Build a response whose section under test holds `n` records with TTL 1..=n.
pub fn build(kind: Kind, n: usize, compressed: bool, opt: OptAt, fillers: [usize; 3], rng: &mut Rng) -> Vec<u8> {
    build_q(kind, n, compressed, opt, fillers, rng, 0)
}

/// `qvariant`: 0 = question "q.example.", 1 = the root, 2 = "a." (short questions; owners are then literal)
pub fn build_q(kind: Kind, n: usize, compressed: bool, opt: OptAt, fillers: [usize; 3], rng: &mut Rng, qvariant: usize) -> Vec<u8> {
    let compressed = compressed && qvariant == 0;
    let s = match kind {
        Kind::Answer => 0,
        Kind::Authority => 1,
        _ => 2,
    };
    let mut counts = fillers;
    if kind != Kind::Question {
        counts[s] = n;
    }
    let has_opt = opt != OptAt::None;
    let ar_total = counts[2] + has_opt as usize;
    let mut a = Asm::header(0x4242, 0x8180, 1, counts[0] as u16, counts[1] as u16, ar_total as u16);
    match qvariant {
        1 => {
            a.root().u16(1).u16(1);
        }
        2 => {
            a.label(b"a").root().u16(1).u16(1);
        }
        _ => {
            a.label(b"q").label(b"example").root().u16(1).u16(1);
        }
    }
    // (compressed packets: besides pointers to the question, now and then a name is written out in full in the
    // middle of the packet and later owners point to IT: a pointer target that moves when records before it go)
    let mut written: Option<usize> = None;
    let mut owner = |a: &mut Asm, i: usize, rng: &mut Rng| {
        if compressed {
            match rng.below(5) {
                0 => {
                    a.ptr(12);
                }
                1 => {
                    a.label(format!("h{}", i).as_bytes()).ptr(12);
                }
                2 => {
                    a.label(b"x").ptr(14);
                }
                3 => {
                    written = Some(a.pos());
                    a.label(format!("n{}", i).as_bytes()).label(b"other").label(b"net").root();
                }
                _ => match written {
                    Some(w) => {
                        if rng.chance(1, 2) {
                            a.ptr(w);
                        } else {
                            a.label(b"ns").ptr(w);
                        }
                    }
                    None => {
                        a.ptr(12);
                    }
                },
            }
        } else {
            a.label(format!("h{}", i).as_bytes()).label(b"example").root();
        }
    };
    let mut emit = |a: &mut Asm, ttl: u32, i: usize, rng: &mut Rng| {
        owner(a, i, rng);
        match rng.below(3) {
            0 => {
                a.rrfix(T_A, ttl, 4).raw(&[10, 0, 0, i as u8]);
            }
            1 => {
                a.rrfix(T_TXT, ttl, 3).raw(&[2, b'o', b'k']);
            }
            _ => {
                if compressed {
                    // every record type whose data holds names the library must expand when a deletion
                    // decompresses the packet, the names ending in a pointer
                    match rng.below(6) {
                        0 => {
                            a.rrfix(T_CNAME, ttl, 2).ptr(12);
                        }
                        1 => {
                            a.rrfix(T_PTR, ttl, 5).label(b"pt").ptr(12);
                        }
                        2 => {
                            a.rrfix(T_MX, ttl, 4).u16(10 + i as u16).ptr(12);
                        }
                        3 => {
                            a.rrfix(T_SOA, ttl, 2 + 5 + 20).ptr(12).label(b"hm").ptr(12).raw(&[1, 2, 3, 4, 5, 6, 7, 8, 9, 10, 11, 12, 13, 14, 15, 16, 17, 18, 19, 20]);
                        }
                        _ => {
                            a.rrfix(T_NS, ttl, 2).ptr(12);
                        }
                    }
                } else {
                    a.rrfix(T_NS, ttl, 11).label(b"q").label(b"example").root();
                }
            }
        }
    };
    for sec in 0..2 {
        for i in 0..counts[sec] {
            let ttl = if sec == s && kind != Kind::Question { (i + 1) as u32 } else { 0x7000_0000 + (sec * 1000 + i) as u32 };
            emit(&mut a, ttl, i, rng);
        }
    }
    let n_ar = counts[2];
    let opt_index = match opt {
        OptAt::None => usize::MAX,
        OptAt::First => 0,
        OptAt::Last => n_ar,
        OptAt::Middle => n_ar / 2,
    };
    for i in 0..=n_ar {
        if i == opt_index {
            // (an OPT record whose data is longer than its own offset in the packet, now and then)
            let ol = *rng.pick(&[4usize, 4, 64, 200]);
            a.root().u16(T_OPT).u16(4096).u32(OPT_ID).u16((4 + ol) as u16).u16(10).u16(ol as u16).raw(&vec![7u8; ol]);
        }
        if i < n_ar {
            let ttl = if s == 2 && kind != Kind::Question { (i + 1) as u32 } else { 0x7000_2000 + i as u32 };
            emit(&mut a, ttl, i, rng);
        }
    }
    a.done()
}

fn ids_of(m: &Msg, kind: Kind) -> Vec<u32> {
    match kind {
        Kind::Answer => m.sec[0].iter().map(|r| r.ttl).collect(),
        Kind::Authority => m.sec[1].iter().map(|r| r.ttl).collect(),
        Kind::AdditionalSkipOpt => m.sec[2].iter().filter(|r| !r.is_opt()).map(|r| r.ttl).collect(),
        Kind::AdditionalInclOpt => m.sec[2].iter().map(|r| r.ttl).collect(),
        Kind::Question => m.question.iter().map(|q| q.qtype as u32).collect(),
    }
}

enum It<'a> {
    R(ResponseIterator<'a>, bool),
    Q(QuestionIterator<'a>),
}

impl<'a> It<'a> {
    fn id(&self) -> u32 {
        match self {
            It::R(i, _) => i.rr_ttl(),
            It::Q(i) => i.rr_type() as u32,
        }
    }
    fn delete(&mut self) -> Result<(), String> {
        match self {
            It::R(i, _) => i.delete().map_err(|e| e.to_string()),
            It::Q(i) => i.delete().map_err(|e| e.to_string()),
        }
    }
    fn delete_err(&mut self) -> Result<(), Error> {
        match self {
            It::R(i, _) => i.delete(),
            It::Q(i) => i.delete(),
        }
    }
    fn bytes(&self) -> Vec<u8> {
        match self {
            // (DNSIterable::packet() needs a live cursor; the object is always reachable)
            It::R(i, _) => i.parsed_packet().packet().to_vec(),
            It::Q(i) => i.parsed_packet().packet().to_vec(),
        }
    }
    fn next(self) -> Option<It<'a>> {
        match self {
            It::R(i, false) => i.next().map(|i| It::R(i, false)),
            It::R(i, true) => i.next_including_opt().map(|i| It::R(i, true)),
            It::Q(i) => i.next().map(It::Q),
        }
    }
}

/// One walk with deletion set `dset` (ids). Returns Err(class, detail) on a violation.
/// `pre`: 0 = a fresh parse; 1 = "warm" (already edited once: pointer-free, question memoised); 2 = the question
/// was deleted by an earlier walk over the question section of the same object
pub fn walk(x: &[u8], kind: Kind, dset: &[u32], pre: u8) -> Result<(u64, u64), (String, String)> {
    let warm = pre == 1;
    let qgone = pre == 2 && kind != Kind::Question;
    let before = refparse(x, RELAXED).map_err(|_| ("harness".to_string(), "start not well-formed".to_string()))?;
    let all = ids_of(&before.msg, kind);
    let n = all.len() as u64;
    let bound = 2 * n + dset.len() as u64 * n + 4;
    // (a packet that is well-formed by the reference but refused by this tree's parser is C02's business: skipped)
    let mut pp = DNSSector::new(x.to_vec()).unwrap().parse().map_err(|e| ("start-rejected".to_string(), format!("start rejected: {}", e)))?;
    if warm {
        // a packet that was already edited once (pointer-free, question memoised), as in a real hook chain
        pp.recompute().map_err(|e| ("harness".to_string(), format!("recompute failed: {}", e)))?;
        let _ = pp.question_raw0();
    }
    if qgone {
        let mut q = pp.into_iter_question().ok_or(("harness".to_string(), "no question to delete first".to_string()))?;
        q.delete().map_err(|e| ("delete-failed".to_string(), format!("delete of the question (first walk) failed: {}", e)))?;
    }
    let mut deleted: Vec<u32> = vec![];
    let mut seen: Vec<u32> = vec![];
    let mut yields = 0u64;
    let mut second_deletes = 0u64;
    {
        let mut it = match kind {
            Kind::Answer => pp.into_iter_answer().map(|i| It::R(i, false)),
            Kind::Authority => pp.into_iter_nameservers().map(|i| It::R(i, false)),
            Kind::AdditionalSkipOpt => pp.into_iter_additional().map(|i| It::R(i, false)),
            Kind::AdditionalInclOpt => pp.into_iter_additional_including_opt().map(|i| It::R(i, true)),
            Kind::Question => pp.into_iter_question().map(It::Q),
        };
        while let Some(mut item) = it {
            yields += 1;
            if yields > bound {
                return Err(("walk-does-not-terminate".into(), format!("more than {} yields for {} records and {} deletions", bound, n, dset.len())));
            }
            let id = item.id();
            if deleted.contains(&id) {
                return Err(("deleted-record-yielded-again".into(), format!("record id {} was deleted and is yielded again", id)));
            }
            if !all.contains(&id) {
                return Err(("foreign-record-yielded".into(), format!("id {:#x} does not belong to the walked section {:?}", id, all)));
            }
            if !seen.contains(&id) {
                seen.push(id);
            }
            if dset.contains(&id) {
                item.delete().map_err(|e| ("delete-failed".to_string(), format!("delete of id {} failed: {}", id, e)))?;
                deleted.push(id);
                // exactly that record is gone
                let now = item.bytes();
                match refparse(&now, RELAXED) {
                    Err(r) => return Err((format!("bytes-rejected-after-delete|{}", r.clause.as_str()), format!("after deleting id {}: {}", id, short(&now)))),
                    Ok(d) => {
                        let want: Vec<u32> = all.iter().copied().filter(|i| !deleted.contains(i)).collect();
                        let got = ids_of(&d.msg, kind);
                        if got != want {
                            return Err(("wrong-record-removed".into(), format!("after deleting id {} the section holds {:?}, want {:?}", id, got, want)));
                        }
                    }
                }
                // a second deletion through the same cursor reports a void record without touching anything
                match item.delete_err() {
                    Ok(()) => return Err(("second-delete-accepted".into(), format!("second delete through the cursor of id {} succeeded", id))),
                    Err(e) => {
                        // "reports a void record"
                        if !matches!(e.downcast_ref::<DSError>(), Some(DSError::VoidRecord)) {
                            return Err(("second-delete-wrong-error".into(), format!("second delete through the cursor of id {} reports {:?}, not a void record", id, e.to_string())));
                        }
                        second_deletes += 1;
                        if item.bytes() != now {
                            return Err(("second-delete-changed-bytes".into(), format!("id {}", id)));
                        }
                    }
                }
            }
            it = item.next();
        }
    }
    // afterwards
    let fin = pp.packet().to_vec();
    let d = refparse(&fin, RELAXED).map_err(|r| (format!("final-bytes-rejected|{}", r.clause.as_str()), short(&fin)))?;
    let survivors: Vec<u32> = all.iter().copied().filter(|i| !dset.contains(i)).collect();
    for s in &survivors {
        if !seen.contains(s) {
            return Err(("survivor-never-yielded".into(), format!("record id {} survived but was never yielded; yielded {:?}", s, seen)));
        }
    }
    for dd in dset {
        if all.contains(dd) && !deleted.contains(dd) {
            return Err(("record-to-delete-never-yielded".into(), format!("id {} was never yielded, so it could not be deleted", dd)));
        }
    }
    if ids_of(&d.msg, kind) != survivors {
        return Err(("final-section-differs".into(), format!("section holds {:?}, survivors are {:?}", ids_of(&d.msg, kind), survivors)));
    }
    // everything else is untouched: compare whole messages
    let mut want = before.msg.clone();
    if qgone {
        want.question.clear();
    }
    match kind {
        Kind::Question => want.question.retain(|q| !dset.contains(&(q.qtype as u32))),
        Kind::Answer => want.sec[0].retain(|r| !dset.contains(&r.ttl)),
        Kind::Authority => want.sec[1].retain(|r| !dset.contains(&r.ttl)),
        Kind::AdditionalSkipOpt => want.sec[2].retain(|r| r.is_opt() || !dset.contains(&r.ttl)),
        Kind::AdditionalInclOpt => want.sec[2].retain(|r| !dset.contains(&r.ttl)),
    }
    if let Some(diff) = d.msg.diff(&want, false, false) {
        return Err(("other-records-changed".into(), diff));
    }
    // counts and section starts as the object sees them (an emptied section reads as absent)
    let offs = [pp.offset_answers, pp.offset_nameservers, pp.offset_additional];
    for s in 0..3 {
        if offs[s] != d.layout.sec_start(s) {
            return Err(("section-offset-wrong".into(), format!("section {}: object says {:?}, bytes say {:?}", s, offs[s], d.layout.sec_start(s))));
        }
    }
    if pp.offset_question != d.layout.question.first().map(|q| q.off) {
        return Err(("section-offset-wrong".into(), format!("question: object says {:?}", pp.offset_question)));
    }
    // an emptied question section reads as absent through every getter (and a surviving one reads as itself)
    let want_q = d.msg.question.first().map(|q| (q.qtype, q.qclass));
    if pp.qtype_qclass() != want_q || pp.question().map(|(_, t, c)| (t, c)) != want_q || pp.question_raw0().map(|(_, t, c)| (t, c)) != want_q {
        return Err(("question-getters-disagree-with-section".into(), format!("the packet holds question {:?} but the getters say {:?}", want_q, pp.qtype_qclass())));
    }
    Ok((yields, second_deletes))
}

fn one(ctx: &mut Ctx, x: &[u8], kind: Kind, dset: &[u32], desc: &str) {
    one_w(ctx, x, kind, dset, desc, 0);
    one_w(ctx, x, kind, dset, desc, 1);
    if kind != Kind::Question {
        one_w(ctx, x, kind, dset, desc, 2);
    }
}

fn one_w(ctx: &mut Ctx, x: &[u8], kind: Kind, dset: &[u32], desc: &str, pre: u8) {
    ctx.evaluations += 1;
    let xv = x.to_vec();
    let dv = dset.to_vec();
    let desc = &format!("{}{}", desc, [" ", " (already edited: pointer-free, question memoised)", " (question deleted by an earlier walk)"][pre as usize]);
    if pre == 2 {
        ctx.count("walks_after_the_question_was_deleted");
    }
    match guarded(crate::mon::runaway_budget(x.len()) * 64, move || walk(&xv, kind, &dv, pre)) {
        Err(p) => {
            let k = if p.is_budget() { "non-termination" } else { "panic" };
            ctx.violation("C11", format!("walk|{}|{}", k, p.class()), format!("{} delete {:?}: {}", desc, dset, p.msg), x);
        }
        Ok(Err((cls, detail))) => {
            if cls == "harness" {
                ctx.count("harness_error");
                ctx.notes.push(format!("harness: C11 {}: {}", desc, detail));
            } else if cls == "start-rejected" {
                ctx.count("starts_refused_by_this_tree");
            } else {
                ctx.violation("C11", format!("walk|{}", cls), format!("{} delete {:?}: {}", desc, dset, detail), x);
            }
        }
        Ok(Ok((yields, sd))) => {
            ctx.count("walks_ok");
            ctx.count_n("yields", yields);
            ctx.count_n("deletions", dset.len() as u64);
            ctx.count_n("second_deletes_refused", sd);
        }
    }
}

/// One walk whose configuration and deletion set are drawn from `rng` (used by the coverage-guided tier).
pub fn one_from_rng(ctx: &mut Ctx, rng: &mut Rng) {
    let kinds = [Kind::Answer, Kind::Authority, Kind::AdditionalSkipOpt, Kind::AdditionalInclOpt, Kind::Question];
    let opts = [OptAt::None, OptAt::First, OptAt::Middle, OptAt::Last];
    let kind = *rng.pick(&kinds);
    let n = if kind == Kind::Question { 1 } else { rng.range(0, 12) };
    let fillers = [rng.below(4), rng.below(4), rng.below(4)];
    let compressed = rng.chance(1, 2);
    let opt = *rng.pick(&opts);
    let x = build(kind, n, compressed, opt, fillers, rng);
    let m = match refparse(&x, RELAXED) {
        Ok(d) => d.msg,
        Err(_) => return,
    };
    let ids = ids_of(&m, kind);
    let dset: Vec<u32> = ids.iter().copied().filter(|_| rng.chance(1, 2)).collect();
    one(ctx, &x, kind, &dset, &format!("{:?} n={} compressed={} opt={:?}", kind, ids.len(), compressed, opt));
}

pub fn run(ctx: &mut Ctx) {
    let nmax: usize = if ctx.tier == "thorough" { 11 } else { 7 };
    // enumerate (kind, compressed, opt, n) configurations; every subset of each
    let kinds = [Kind::Answer, Kind::Authority, Kind::AdditionalSkipOpt, Kind::AdditionalInclOpt];
    let opts = [OptAt::None, OptAt::First, OptAt::Middle, OptAt::Last];
    let mut configs = vec![];
    for &k in &kinds {
        for c in [false, true] {
            for &o in &opts {
                for n in 0..=nmax {
                    configs.push((k, c, o, n));
                }
            }
        }
    }
    for c in [false, true] {
        for &o in &opts {
            configs.push((Kind::Question, c, o, 1));
        }
    }
    // short questions (the root, a one-letter name): a question is only a name plus four bytes
    for &o in &opts {
        configs.push((Kind::Question, false, o, 101));
        configs.push((Kind::Question, false, o, 102));
    }
    let complete = ctx.only_case.is_none();
    for ci in ctx.phase("exhaustive", configs.len() as u64) {
        if ctx.out_of_time() {
            break;
        }
        ctx.begin_case(ci);
        let (kind, compressed, opt, n) = configs[ci as usize];
        let mut rng = Rng::for_case(ctx.seed, "c11", 0, ci);
        let fillers = [rng.below(3), rng.below(3), rng.below(3)];
        let x = if n >= 100 { build_q(kind, 1, compressed, opt, fillers, &mut rng, n - 100) } else { build(kind, n, compressed, opt, fillers, &mut rng) };
        let m = match refparse(&x, RELAXED) {
            Ok(d) => d.msg,
            Err(_) => {
                ctx.count("harness_error");
                ctx.notes.push(format!("harness: C11 packet not well-formed: {}", short(&x)));
                continue;
            }
        };
        let ids = ids_of(&m, kind);
        let desc = format!("{:?} n={} compressed={} opt={:?}", kind, ids.len(), compressed, opt);
        ctx.cover(&format!("cfg|{:?}|{}|{:?}|{}", kind, compressed, opt, ids.len()));
        ctx.count(&format!("kind:{:?}", kind));
        for mask in 0u32..(1u32 << ids.len()) {
            let dset: Vec<u32> = ids.iter().enumerate().filter(|(i, _)| mask & (1 << i) != 0).map(|(_, v)| *v).collect();
            one(ctx, &x, kind, &dset, &desc);
            ctx.distinct_extra += 1;
        }
        if ci < 4 {
            ctx.sample(|| format!("{} all {} deletion sets of {:?} :: {}", desc, 1u64 << ids.len(), ids, short(&x)));
        }
    }
    if complete && !ctx.timed_out {
        ctx.exhaustive = true;
    }
    // larger sections, random deletion sets
    let nrand = ctx.scaled(if ctx.tier == "thorough" { 200_000 } else { 6_000 });
    for case in ctx.phase("random-large", nrand) {
        if case % 64 == 0 && ctx.out_of_time() {
            break;
        }
        ctx.begin_case(case);
        let mut rng = Rng::for_case(ctx.seed, "c11-rand", 0, case);
        let kind = *rng.pick(&kinds);
        let n = if ctx.tier == "thorough" { rng.range(8, 200) } else { rng.range(8, 60) };
        let fillers = [rng.below(4), rng.below(4), rng.below(4)];
        let x = build(kind, n, rng.chance(1, 2), *rng.pick(&opts), fillers, &mut rng);
        let m = match refparse(&x, RELAXED) {
            Ok(d) => d.msg,
            Err(_) => continue,
        };
        let ids = ids_of(&m, kind);
        let dset: Vec<u32> = match rng.below(4) {
            0 => ids.clone(),
            1 => ids.iter().copied().filter(|_| rng.chance(1, 2)).collect(),
            2 => ids.iter().copied().rev().take(rng.range(1, 3)).collect(),
            _ => ids.iter().copied().filter(|_| rng.chance(1, 6)).collect(),
        };
        ctx.cover(&format!("rand|{:?}|n{}|d{}", kind, ids.len() / 8, dset.len() * 8 / ids.len().max(1)));
        one(ctx, &x, kind, &dset, &format!("{:?} n={}", kind, ids.len()));
    }
    // packets that are, and stay, larger than 65535 bytes (two 33000-byte records in a section that is not walked)
    let nhuge = ctx.scaled(if ctx.tier == "thorough" { 2_000 } else { 96 });
    for case in ctx.phase("above-65535", nhuge) {
        if case % 16 == 0 && ctx.out_of_time() {
            break;
        }
        ctx.begin_case(case);
        let mut rng = Rng::for_case(ctx.seed, "c11-huge", 0, case);
        let kind = *rng.pick(&kinds);
        let n = rng.range(1, 5);
        let x0 = build(kind, n, false, *rng.pick(&opts), [1, 1, 1], &mut rng);
        let mut m = match refparse(&x0, RELAXED) {
            Ok(d) => d.msg,
            Err(_) => continue,
        };
        let s = if kind == Kind::Answer { 1 } else { 0 };
        for i in 0..2 {
            let at = if rng.chance(1, 2) { 0 } else { m.sec[s].len() };
            m.sec[s].insert(at, Record { name: Name::from_labels(&[b"big"]), rtype: T_TXT, class: 1, ttl: 0x7100_0000 + i, rdata: RData::Opaque(vec![0x3f; 33_000]) });
        }
        let x = m.encode_literal();
        let ids = ids_of(&m, kind);
        let dset: Vec<u32> = ids.iter().copied().filter(|_| rng.chance(1, 2)).collect();
        ctx.count("walks_on_packets_above_65535");
        ctx.cover(&format!("huge|{:?}|d{}", kind, dset.len()));
        one(ctx, &x, kind, &dset, &format!("{:?} n={} (packet of {} bytes)", kind, ids.len(), x.len()));
    }
}

//! C08 — a mutated packet object always matches a fresh parse of its own bytes.
use super::hist::*;
use super::*;

pub fn run(ctx: &mut Ctx) {
    let n = ctx.scaled(if ctx.tier == "thorough" { 6_000_000 } else { 200_000 });
    drive(ctx, Prop::C08, "hist", n, Mix { error_sixteenths: 1, max_steps: 24, big_start: false, near_limit: 0, want: Prop::C08 });
    let n = ctx.scaled(if ctx.tier == "thorough" { 600_000 } else { 20_000 });
    drive(ctx, Prop::C08, "hist-long", n, Mix { error_sixteenths: 0, max_steps: 60, big_start: false, near_limit: 0, want: Prop::C08 });
    // starts just under the limits (insertions sized to land exactly on 8192 among them) and above 65535
    let n = ctx.scaled(if ctx.tier == "thorough" { 60_000 } else { 2_400 });
    drive(ctx, Prop::C08, "hist-near-8192", n, Mix { error_sixteenths: 0, max_steps: 5, big_start: false, near_limit: 8192, want: Prop::C08 });
    let n = ctx.scaled(if ctx.tier == "thorough" { 4_000 } else { 160 });
    drive(ctx, Prop::C08, "hist-above-65535", n, Mix { error_sixteenths: 0, max_steps: 4, big_start: false, near_limit: 70000, want: Prop::C08 });
    let n = ctx.scaled(if ctx.tier == "thorough" { 2_000 } else { 96 });
    drive(ctx, Prop::C08, "hist-decompresses-above-65535", n, Mix { error_sixteenths: 0, max_steps: 4, big_start: false, near_limit: 70001, want: Prop::C08 });
    let n = ctx.scaled(if ctx.tier == "thorough" { 400_000 } else { 40_000 });
    drive_header_alias(ctx, Prop::C08, n);
    drive_rdata_alias(ctx, Prop::C08, ctx.scaled(2_000));
}

//! C15 — the C function table is a faithful, memory-safe facade over the native API.

use dnssector::*;

use super::hist::check_view;
use super::*;
use crate::capi::*;
use crate::gen::valid::{gen_valid, Cfg};
use crate::model::msg::*;
use crate::prng::Rng;

fn first_diff(a: &[u8], b: &[u8]) -> usize {
    a.iter().zip(b.iter()).position(|(x, y)| x != y).unwrap_or(a.len().min(b.len()))
}

/// Which log entry (tag) holds byte offset `at` of `log`? Walks the native log format.
fn entry_at(log: &[u8], at: usize) -> String {
    // entries are self-describing enough for a coarse classification: find the last tag byte before `at`
    // by replaying the expected log's structure
    let mut i = 0;
    let mut last = 0u8;
    let rd16 = |l: &[u8], i: usize| -> usize { l.get(i).copied().unwrap_or(0) as usize | ((l.get(i + 1).copied().unwrap_or(0) as usize) << 8) };
    let ret_len = |l: &[u8], i: usize| -> usize {
        if l.get(i + 1).copied() == Some(0xfe) {
            2
        } else if l.get(i + 1).copied() == Some(0xfd) {
            3
        } else if l.get(i).copied() == Some(1) {
            3 + rd16(l, i + 1)
        } else {
            1
        }
    };
    while i < log.len() && i <= at {
        last = log[i];
        i += 1 + match last {
            1 => 4,
            2 | 4 | 6 | 0x15 | 0x17 => 0,
            3 | 5 => 1,
            7 => 1,
            0x70 | 0x7f => 1,
            0x11 => 2 + rd16(log, i + 1),
            0x12 | 0x13 => 2,
            0x14 => 4,
            0x16 => 1 + log.get(i + 1).copied().unwrap_or(0) as usize,
            0x18 | 0x19 | 0x1a | 8 | 11 => ret_len(log, i + 1),
            9 => {
                if log.get(i + 1).copied() == Some(0) {
                    3 + rd16(log, i + 2)
                } else {
                    1
                }
            }
            10 => 1 + 2 + rd16(log, i + 2) + 2,
            12 => {
                let r = ret_len(log, i + 1);
                if log.get(i + 1).copied() == Some(0) {
                    r + 2 + rd16(log, i + 1 + r)
                } else {
                    r
                }
            }
            _ => 0,
        };
    }
    match last {
        1 => "flags",
        3 => "rcode",
        5 => "opcode",
        7 | 0x70 | 0x7f => "iteration",
        0x11 => "name",
        0x12 => "rr_type",
        0x13 => "rr_class",
        0x14 => "rr_ttl",
        0x16 => "rr_ip",
        0x18 => "set_raw_name",
        0x19 => "set_name",
        0x1a => "delete",
        8 => "add_to_section",
        9 => "raw_packet",
        10 => "question",
        11 => "rename",
        12 => "raw_name_from_str",
        _ => "other",
    }
    .to_string()
}

fn layout_check(ctx: &mut Ctx) {
    let (rsize, rmembers) = rust_layout();
    ctx.count("layout_checks");
    let t = fn_table();
    match c_layout() {
        None => {
            ctx.count("layout_rust_only");
        }
        Some(c) => {
            ctx.count("layout_c_vs_rust");
            if c.size != rsize {
                ctx.violation("C15", "layout|table-size".into(), format!("sizeof(FnTable) is {} through the shipped header, {} in Rust", c.size, rsize), &[]);
            }
            if c.members.len() != rmembers.len() {
                ctx.violation("C15", "layout|member-count".into(), format!("{} members in the header, {} in Rust", c.members.len(), rmembers.len()), &[]);
            }
            for ((cn, co), (rn, ro)) in c.members.iter().zip(rmembers.iter()) {
                ctx.count("layout_members_compared");
                if cn != rn || co != ro {
                    ctx.violation(
                        "C15",
                        "layout|member-order".into(),
                        format!("header member {:?} at offset {}, Rust field {:?} at offset {}", cn, co, rn, ro),
                        &[],
                    );
                    break;
                }
            }
            if c.abi_version != t.abi_version {
                ctx.violation("C15", "layout|abi-version".into(), format!("header says {:#x}, table says {:#x}", c.abi_version, t.abi_version), &[]);
            }
            if c.max_hostname_len != DNS_MAX_HOSTNAME_LEN || c.max_packet_size != DNS_MAX_UNCOMPRESSED_SIZE {
                ctx.violation("C15", "layout|buffer-constants".into(), format!("header buffers {}/{}, Rust {}/{}", c.max_hostname_len, c.max_packet_size, DNS_MAX_HOSTNAME_LEN, DNS_MAX_UNCOMPRESSED_SIZE), &[]);
            }
        }
    }
    // the Rust fields must be in ascending offset order in the order the header lists them
    for w in rmembers.windows(2) {
        if w[0].1 >= w[1].1 {
            ctx.violation("C15", "layout|member-order".into(), format!("Rust field {:?} (offset {}) does not precede {:?} (offset {})", w[0].0, w[0].1, w[1].0, w[1].1), &[]);
        }
    }
}

pub fn one(ctx: &mut Ctx, rng: &mut Rng, x: &[u8], max_ops: usize) {
    one_with(ctx, rng, x, max_ops, None)
}

pub fn one_with(ctx: &mut Ctx, rng: &mut Rng, x: &[u8], max_ops: usize, first: Option<usize>) {
    let mut pp1 = match lib_parse(x) {
        Ok(Ok(pp)) => pp,
        _ => return,
    };
    // native execution doubles as generator; a native panic is C08/C09's business
    let sc = match guarded(u64::MAX / 2, || generate_with(rng, &mut pp1, max_ops, first)) {
        Ok(s) => s,
        Err(p) => {
            // A panic of the library itself while a hook's sequence of calls is executed natively means the same
            // calls through the table unwind into C: a crash where the property promises -1 and a description.
            // (The table is not driven for such a script: the process would abort.) A panic raised by the
            // harness's own generator is not the library's doing and only skips the script.
            let in_library = p.file.contains("/src/") && !p.file.contains("harness") && !p.file.contains("/verif/");
            if in_library && !p.is_budget() {
                ctx.evaluations += 1;
                ctx.violation("C15", format!("script|library-panics|{}", p.class()), format!("executing a hook script natively panicked at {}:{}: {} (through the table this unwinds across the extern \"C\" frame)", p.file, p.line, p.msg), x);
            } else {
                ctx.count("native_panic_skipped");
            }
            return;
        }
    };
    ctx.evaluations += 1;
    ctx.count("scripts");
    ctx.count_n("script_ops", sc.ops.len() as u64);
    for s in &sc.sigs {
        ctx.cover(s);
    }
    {
        // the script's shape: which calls with which outcomes occur together
        let mut shape: Vec<&String> = sc.sigs.iter().collect();
        shape.sort();
        shape.dedup();
        ctx.cover(&format!("shape|{:?}", shape));
    }
    let mut compare = |ctx: &mut Ctx, who: &str, log: &[u8], pp: &ParsedPacket, rc: i32| {
        ctx.count(&format!("{}_runs", who));
        ctx.count_n("log_bytes_compared", log.len() as u64);
        if log.contains(&0xEE) && !sc.expected_log.contains(&0xEE) {
            // (0xEE can only come from the C driver's fence check unless it is payload; confirm by mismatch)
        }
        if rc != 0 {
            ctx.count("harness_error");
            ctx.notes.push(format!("harness: {} driver log overflow", who));
            return;
        }
        if log != &sc.expected_log[..] {
            let at = first_diff(log, &sc.expected_log);
            let what = entry_at(&sc.expected_log, at);
            let fence = log.get(at).copied() == Some(0xEE);
            let cls = if fence { format!("buffer-fence|{}", what) } else { format!("result-differs|{}", what) };
            ctx.violation(
                "C15",
                format!("{}|{}", who, cls),
                format!(
                    "script {:?}: the table's log differs from the native log at byte {} (in {}): table ..{} native ..{}",
                    sc.ops,
                    at,
                    what,
                    hex(&log[at.saturating_sub(4)..(at + 24).min(log.len())]),
                    hex(&sc.expected_log[at.saturating_sub(4)..(at + 24).min(sc.expected_log.len())])
                ),
                x,
            );
            return;
        }
        match pp.packet.as_ref() {
            None => ctx.violation("C15", format!("{}|packet-lost", who), format!("script {:?}", sc.ops), x),
            Some(b) if b != &sc.final_packet => ctx.violation(
                "C15",
                format!("{}|final-packet-differs", who),
                format!("script {:?}: packet after the table calls differs from the native result at byte {}", sc.ops, first_diff(b, &sc.final_packet)),
                x,
            ),
            _ => {}
        }
        if let Err(fd) = check_view(pp) {
            // only report when the native object does not show the same problem
            if check_view(&pp1).is_ok() {
                ctx.violation("C15", format!("{}|view|{}", who, fd.class), format!("script {:?}: {}", sc.ops, fd.detail), x);
            }
        }
    };
    // Rust driver through the exported table
    {
        let t = raw_table();
        let mut pp2 = match lib_parse(x) {
            Ok(Ok(pp)) => pp,
            _ => return,
        };
        ctx.slot.set(ctx.cur_case, 2);
        let log = rust_driver(&t, &mut pp2, &sc.bytes);
        compare(ctx, "rust-driver", &log, &pp2, 0);
    }
    // C driver through the shipped header
    {
        let mut pp3 = match lib_parse(x) {
            Ok(Ok(pp)) => pp,
            _ => return,
        };
        ctx.slot.set(ctx.cur_case, 3);
        if let Some((log, rc)) = c_driver(&mut pp3, &sc.bytes) {
            compare(ctx, "c-driver", &log, &pp3, rc);
        }
    }
    ctx.sample(|| format!("{:?}", sc.ops));
}

pub fn run(ctx: &mut Ctx) {
    if ctx.shard == 0 || ctx.replaying() {
        layout_check(ctx);
    }
    let n = match ctx.tier.as_str() {
        "thorough" => 4_000_000,
        "miri" => 40,
        _ => 160_000,
    };
    let n = ctx.scaled(n);
    for case in ctx.phase("scripts", n) {
        if case % 256 == 0 && ctx.out_of_time() {
            break;
        }
        ctx.begin_case(case);
        let mut rng = Rng::for_case(ctx.seed, "c15", 0, case);
        let cfg = Cfg {
            max_records: if ctx.tier == "miri" { 4 } else { 8 },
            types: &[T_A, T_A, T_AAAA, T_NS, T_CNAME, T_MX, T_SOA, T_TXT, T_PTR, 99],
            allow_header_targets: false,
            alphabet: 5,
            ..Default::default()
        };
        let v = gen_valid(&mut rng, &cfg);
        let max_ops = if ctx.tier == "miri" { 5 } else { 10 };
        if ctx.tier != "miri" && case % 64 == 63 {
            // an accepted packet larger than 8192 bytes, as arrives over TCP (the table's raw_packet takes any
            // capacity the hook states)
            let mut m = v.msg.clone();
            for i in 0..rng.range(10, 14) {
                m.sec[i % 3].push(Record { name: Name::from_labels(&[b"big"]), rtype: T_TXT, class: 1, ttl: i as u32, rdata: RData::Opaque(vec![b'x'; rng.range(700, 900)]) });
            }
            // (OPT, if any, stays where it was in the additional section)
            let big = m.encode_literal();
            if crate::model::refparse::accepts(&big) {
                ctx.count("scripts_on_packets_above_8192");
                one(ctx, &mut rng, &big, max_ops);
                continue;
            }
        }
        one(ctx, &mut rng, &v.bytes, max_ops);
    }
    // names at the very top of what the parser accepts (255 wire bytes = 253 text characters + terminator in a
    // 256-byte buffer), as question name and as owner names
    let k = ctx.scaled(if ctx.tier == "thorough" { 40_000 } else if ctx.tier == "miri" { 2 } else { 1_600 });
    for case in ctx.phase("longest-names", k) {
        ctx.begin_case(case);
        let mut rng = Rng::for_case(ctx.seed, "c15-long", 0, case);
        let w = *rng.pick(&[255usize, 255, 254, 253, 252]);
        let qn = if rng.chance(1, 2) { crate::gen::valid::name_of_wire_len(&mut rng, w) } else { Name((0..(w - 1) / 2).map(|_| vec![*rng.pick(b"abcXYZ")]).collect()) };
        let mut msg = Msg { id: rng.u16(), flags: 0x8180, ..Default::default() };
        msg.question.push(Question { name: qn.clone(), qtype: 1, qclass: 1 });
        for i in 0..rng.range(1, 4) {
            msg.sec[i % 3].push(Record { name: qn.clone(), rtype: T_A, class: 1, ttl: i as u32, rdata: RData::A([10, 0, 0, i as u8]) });
        }
        let lit = msg.encode_literal();
        let x = if rng.chance(1, 2) { Compress::compress(&lit).unwrap_or(lit) } else { lit };
        ctx.count("longest_name_packets");
        // question() first, then the usual mix (which iterates and reads names)
        one_with(ctx, &mut rng, &x, 6, Some(16));
    }
    // packets larger than the 8192-byte copy-out buffer
    let m = ctx.scaled(if ctx.tier == "thorough" { 20_000 } else if ctx.tier == "miri" { 1 } else { 800 });
    for case in ctx.phase("big-packets", m) {
        ctx.begin_case(case);
        let mut rng = Rng::for_case(ctx.seed, "c15-big", 0, case);
        let mut msg = Msg { id: rng.u16(), flags: 0x8180, ..Default::default() };
        msg.question.push(Question { name: Name::from_labels(&[b"big", b"example"]), qtype: 16, qclass: 1 });
        for i in 0..rng.range(8, 14) {
            let l = rng.range(700, 1000);
            msg.sec[i % 3].push(Record { name: msg.question[0].name.clone(), rtype: T_TXT, class: 1, ttl: i as u32, rdata: RData::Opaque(vec![b'x'; l]) });
        }
        let x = msg.encode_literal();
        one(ctx, &mut rng, &x, 6);
    }
}

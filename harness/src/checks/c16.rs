//! C16 — C error descriptions are private to the calling thread.
//!
//! History monitor: each thread runs a script of fail(k) / ok() / read()
//! steps against the real function table; read() must return the description
//! of that thread's latest failure. Schedules: every interleaving of small
//! scripts forced with a baton, then free-running stress.

use std::ffi::{CStr, CString};
use std::sync::atomic::{AtomicUsize, Ordering};
use std::sync::{Arc, Barrier};

use dnssector::*;
use libc::{c_char, c_int, size_t};

use super::*;
use crate::gen::hostile::Asm;
use crate::model::msg::*;
use crate::prng::Rng;

// expected signatures (transmuted, so that a changed table still lets the harness build and shows up at run time)
type FnErrDesc = unsafe extern "C" fn(*const CErr) -> *const c_char;
type FnFlags = unsafe extern "C" fn(*const ParsedPacket) -> u32;
type FnAdd = unsafe extern "C" fn(*mut ParsedPacket, *mut *const CErr, *const c_char) -> c_int;
type FnRawName = unsafe extern "C" fn(*mut [u8; 256], *mut size_t, *mut *const CErr, *const c_char, size_t) -> c_int;
type FnRename = unsafe extern "C" fn(*mut ParsedPacket, *mut *const CErr, *const u8, size_t, *const u8, size_t, bool) -> c_int;
type ItPtr = *mut std::ffi::c_void;
type FnCb = unsafe extern "C" fn(*mut std::ffi::c_void, ItPtr) -> bool;
type FnIter = unsafe extern "C" fn(*mut ParsedPacket, FnCb, *mut std::ffi::c_void);
type FnDelete = unsafe extern "C" fn(ItPtr, *mut *const CErr) -> c_int;
type FnSetName = unsafe extern "C" fn(ItPtr, *mut *const CErr, *const c_char, size_t, *const u8, size_t) -> c_int;

pub struct Table {
    pub error_description: FnErrDesc,
    pub flags: FnFlags,
    pub add_to_question: FnAdd,
    pub add_to_answer: FnAdd,
    pub raw_name_from_str: FnRawName,
    pub rename: FnRename,
    pub iter_answer: FnIter,
    pub delete: FnDelete,
    pub set_name: FnSetName,
}

pub fn table() -> Table {
    let t = fn_table();
    unsafe {
        Table {
            error_description: crate::capi::cast_fn(t.error_description),
            flags: crate::capi::cast_fn(t.flags),
            add_to_question: crate::capi::cast_fn(t.add_to_question),
            add_to_answer: crate::capi::cast_fn(t.add_to_answer),
            raw_name_from_str: crate::capi::cast_fn(t.raw_name_from_str),
            rename: crate::capi::cast_fn(t.rename_with_raw_names),
            iter_answer: crate::capi::cast_fn(t.iter_answer),
            delete: crate::capi::cast_fn(t.delete),
            set_name: crate::capi::cast_fn(t.set_name),
        }
    }
}

pub const N_KINDS: usize = 9;

fn small_packet() -> ParsedPacket {
    let mut a = Asm::header(1, 0x8180, 1, 1, 0, 0);
    a.label(b"q").label(b"example").root().u16(1).u16(1);
    a.ptr(12).rrfix(T_A, 60, 4).raw(&[1, 2, 3, 4]);
    DNSSector::new(a.done()).unwrap().parse().unwrap()
}

fn big_packet() -> ParsedPacket {
    let mut m = Msg { id: 1, flags: 0x8180, ..Default::default() };
    m.question.push(Question { name: Name::from_labels(&[b"q"]), qtype: 1, qclass: 1 });
    for _ in 0..9 {
        m.sec[0].push(Record { name: Name::from_labels(&[b"q"]), rtype: T_TXT, class: 1, ttl: 1, rdata: RData::Opaque(vec![b'x'; 900]) });
    }
    DNSSector::new(m.encode_literal()).unwrap().parse().unwrap()
}

pub struct ThreadState {
    t: Table,
    small: ParsedPacket,
    big: ParsedPacket,
    err: *const CErr,
    /// the pointer a previous error_description() call returned; valid until this thread's next failure
    kept: *const c_char,
}

impl ThreadState {
    pub fn new() -> Self {
        ThreadState { t: table(), small: small_packet(), big: big_packet(), err: std::ptr::null(), kept: std::ptr::null() }
    }
    /// A failing table call of kind k; returns the table's return value.
    pub fn fail(&mut self, k: usize) -> c_int {
        self.kept = std::ptr::null();
        let mut raw = [0u8; 256];
        let mut raw_len: size_t = 0;
        let rn = |s: &mut Self, name: &[u8], raw: &mut [u8; 256], raw_len: &mut size_t| unsafe {
            (s.t.raw_name_from_str)(raw, raw_len, &mut s.err, name.as_ptr() as *const c_char, name.len())
        };
        match k % N_KINDS {
            0 => rn(self, b"a..b", &mut raw, &mut raw_len),
            1 => rn(self, &[b'x'; 70], &mut raw, &mut raw_len),
            2 => {
                let long: Vec<u8> = (0..260).map(|i| if i % 20 == 19 { b'.' } else { b'y' }).collect();
                rn(self, &long, &mut raw, &mut raw_len)
            }
            3 => rn(self, &[b'a', 0xe9, b'b'], &mut raw, &mut raw_len),
            4 => {
                let s = CString::new("this is not a record").unwrap();
                unsafe { (self.t.add_to_answer)(&mut self.small, &mut self.err, s.as_ptr()) }
            }
            5 => {
                // a second question (the answer section is irrelevant): "q. 0 IN A" is not question syntax,
                // so use the text form the table accepts for questions: a full record whose insertion fails on the count
                let s = CString::new("second.example. 0 IN A 1.2.3.4").unwrap();
                unsafe { (self.t.add_to_question)(&mut self.small, &mut self.err, s.as_ptr()) }
            }
            6 => {
                let s = CString::new(format!("big.example. 0 IN TXT \"{}\"", "z".repeat(600))).unwrap();
                unsafe { (self.t.add_to_answer)(&mut self.big, &mut self.err, s.as_ptr()) }
            }
            7 => {
                let src = [1u8, b'q', 7, b'e', b'x', b'a', b'm', b'p', b'l', b'e', 0];
                unsafe { (self.t.rename)(&mut self.small, &mut self.err, src.as_ptr(), 0, src.as_ptr(), src.len(), true) }
            }
            _ => {
                // record text that is not UTF-8 (refused before the native parser sees it)
                let s = CString::new(vec![b'a', 0xff, 0xfe, b' ', b'1']).unwrap();
                unsafe { (self.t.add_to_answer)(&mut self.small, &mut self.err, s.as_ptr()) }
            }
        }
    }
    pub fn ok(&mut self) -> bool {
        let mut raw = [0u8; 256];
        let mut raw_len: size_t = 0;
        let name = b"fine.example";
        let mut e2: *const CErr = std::ptr::null();
        let r = unsafe { (self.t.raw_name_from_str)(&mut raw, &mut raw_len, &mut e2, name.as_ptr() as *const c_char, name.len()) };
        let f = unsafe { (self.t.flags)(&self.small) };
        r == 0 && f & 0x8000 != 0
    }
    /// Look again at the string a previous read() obtained, WITHOUT asking the table again: a hook may
    /// keep the pointer until its thread's next failure.
    pub fn recheck(&self) -> Option<Option<String>> {
        if self.kept.is_null() {
            return None;
        }
        unsafe {
            let p = self.kept;
            let mut n = 0;
            while n < 512 && *p.add(n) != 0 {
                n += 1;
            }
            if n == 512 {
                return Some(Some("<unterminated>".into()));
            }
            Some(Some(CStr::from_ptr(p).to_string_lossy().into_owned()))
        }
    }
    pub fn read(&mut self) -> Option<String> {
        if self.err.is_null() {
            return None;
        }
        unsafe {
            let p = (self.t.error_description)(self.err);
            self.kept = p;
            if p.is_null() {
                return None;
            }
            // bounded: a missing terminator must not run away
            let mut n = 0;
            while n < 512 && *p.add(n) != 0 {
                n += 1;
            }
            if n == 512 {
                return Some("<unterminated>".into());
            }
            Some(CStr::from_ptr(p).to_string_lossy().into_owned())
        }
    }
}

/// What the native API says for each failure kind (used only to tell whether two kinds *should* read alike).
pub fn native_descriptions() -> Vec<String> {
    let mut small = small_packet();
    let mut big = big_packet();
    let rn = |n: &[u8]| r#gen::raw_name_from_str(n, None).err().map(|e| e.to_string()).unwrap_or_default();
    let long: Vec<u8> = (0..260).map(|i| if i % 20 == 19 { b'.' } else { b'y' }).collect();
    let src = [1u8, b'q', 7, b'e', b'x', b'a', b'm', b'p', b'l', b'e', 0];
    vec![
        rn(b"a..b"),
        rn(&[b'x'; 70]),
        rn(&long),
        rn(&[b'a', 0xe9, b'b']),
        small.insert_rr_from_string(Section::Answer, "this is not a record").err().map(|e| e.to_string()).unwrap_or_default(),
        small.insert_rr_from_string(Section::Question, "second.example. 0 IN A 1.2.3.4").err().map(|e| e.to_string()).unwrap_or_default(),
        big.insert_rr_from_string(Section::Answer, &format!("big.example. 0 IN TXT \"{}\"", "z".repeat(600))).err().map(|e| e.to_string()).unwrap_or_default(),
        small.rename_with_raw_names(&src[..0], &src, true).err().map(|e| e.to_string()).unwrap_or_default(),
        // no native counterpart (the native call takes a &str); today the table answers like for unparsable text
        DSError::ParseError.to_string(),
    ]
}

pub enum Setup {
    Ok(Vec<String>),
    /// the table hands out, for one failure, the description of ANOTHER failure (they differ natively)
    Stale(String),
    Blocked(String),
}

/// The description each failure kind produces through the table, obtained single-threaded.
pub fn expected_descriptions() -> Setup {
    let mut st = ThreadState::new();
    let mut v = vec![];
    for k in 0..N_KINDS {
        let r = st.fail(k);
        if r != -1 {
            return Setup::Blocked(format!("failure kind {} did not fail (returned {})", k, r));
        }
        match st.read() {
            Some(d) if !d.is_empty() => v.push(d),
            _ => return Setup::Blocked(format!("failure kind {} left no description", k)),
        }
        // fresh small packet for the next kind (kind 5 must see exactly one question)
        st.small = small_packet();
    }
    let native = native_descriptions();
    for i in 0..v.len() {
        for j in 0..i {
            if v[i] == v[j] {
                if native[i] != native[j] && !native[i].is_empty() && !native[j].is_empty() {
                    return Setup::Stale(format!(
                        "one thread, failure kind {} then kind {}: both read {:?}, but the failures differ (natively {:?} and {:?})",
                        j, i, v[i], native[j], native[i]
                    ));
                }
                // two kinds that read alike natively too (unparsable text / text that is not UTF-8): fine, the
                // schedules then simply cannot tell these two apart
                continue;
            }
        }
    }
    Setup::Ok(v)
}

/// A failing iterator call made by a helper thread while the iterating thread waits in its callback.
pub struct HelperCtx {
    pub t: Table,
    /// 0 = delete twice (the second one reports a void record); 1 = set_name with an empty label
    pub mode: usize,
    pub helper_ret: c_int,
    pub helper_read: Option<String>,
}

unsafe extern "C" fn cb_helper(ctx: *mut std::ffi::c_void, it: ItPtr) -> bool {
    let c = &mut *(ctx as *mut HelperCtx);
    let (del, setn, errd, mode) = (c.t.delete, c.t.set_name, c.t.error_description, c.mode);
    let itp = it as usize;
    let got = std::thread::scope(|s| {
        s.spawn(move || {
            let it = itp as ItPtr;
            let mut err: *const CErr = std::ptr::null();
            let r = if mode == 0 {
                let mut e0: *const CErr = std::ptr::null();
                del(it, &mut e0);
                del(it, &mut err)
            } else {
                let bad = b"a..b";
                setn(it, &mut err, bad.as_ptr() as *const c_char, bad.len(), std::ptr::null(), 0)
            };
            if r != -1 || err.is_null() {
                return (r, None);
            }
            let p = errd(err);
            if p.is_null() {
                return (r, None);
            }
            (r, Some(CStr::from_ptr(p).to_string_lossy().into_owned()))
        })
        .join()
        .unwrap_or((0, None))
    });
    c.helper_ret = got.0;
    c.helper_read = got.1;
    true
}

#[derive(Clone, Copy, Debug, PartialEq, Eq)]
pub enum Step {
    Fail(usize),
    Ok,
    Read,
    /// re-read the kept pointer (no table call)
    Recheck,
}

/// All interleavings of `lens[i]` steps per thread, as sequences of thread indices.
pub fn interleavings(lens: &[usize]) -> Vec<Vec<usize>> {
    fn rec(left: &mut Vec<usize>, cur: &mut Vec<usize>, out: &mut Vec<Vec<usize>>) {
        if left.iter().all(|&l| l == 0) {
            out.push(cur.clone());
            return;
        }
        for t in 0..left.len() {
            if left[t] > 0 {
                left[t] -= 1;
                cur.push(t);
                rec(left, cur, out);
                cur.pop();
                left[t] += 1;
            }
        }
    }
    let mut out = vec![];
    rec(&mut lens.to_vec(), &mut vec![], &mut out);
    out
}

/// Execute `scripts` under the forced schedule `order` (one entry per step: which thread moves).
/// Returns, per thread, the observed reads paired with the expectation.
pub fn run_schedule(scripts: &[Vec<Step>], order: &[usize], want: &[String]) -> Vec<(usize, usize, Option<String>, Option<String>)> {
    let turn = Arc::new(AtomicUsize::new(0));
    let order = Arc::new(order.to_vec());
    let start = Arc::new(Barrier::new(scripts.len()));
    let mut hs = vec![];
    for (ti, script) in scripts.iter().enumerate() {
        let (turn, order, start, script, want) = (turn.clone(), order.clone(), start.clone(), script.clone(), want.to_vec());
        hs.push(std::thread::spawn(move || {
            let mut st = ThreadState::new();
            let mut last: Option<usize> = None;
            let mut obs = vec![];
            start.wait();
            let mut pc = 0;
            for (pos, &who) in order.iter().enumerate() {
                if who != ti {
                    continue;
                }
                // wait for the baton
                let mut spins = 0u64;
                while turn.load(Ordering::Acquire) != pos {
                    spins += 1;
                    if spins % 64 == 0 || cfg!(miri) {
                        std::thread::yield_now();
                    } else {
                        std::hint::spin_loop();
                    }
                }
                match script[pc] {
                    Step::Fail(k) => {
                        st.fail(k);
                        last = Some(k);
                    }
                    Step::Ok => {
                        st.ok();
                    }
                    Step::Read => obs.push((ti, pc, st.read(), last.map(|k| want[k % N_KINDS].clone()))),
                    Step::Recheck => {
                        if let Some(got) = st.recheck() {
                            obs.push((ti, pc, got, last.map(|k| want[k % N_KINDS].clone())));
                        }
                    }
                }
                pc += 1;
                turn.store(pos + 1, Ordering::Release);
            }
            obs
        }));
    }
    let mut all = vec![];
    for h in hs {
        if let Ok(o) = h.join() {
            all.extend(o);
        } else {
            all.push((usize::MAX, 0, Some("<thread panicked>".into()), None));
        }
    }
    all
}

pub fn run(ctx: &mut Ctx) {
    let want = match expected_descriptions() {
        Setup::Ok(w) => w,
        Setup::Stale(e) => {
            ctx.evaluations += 1;
            ctx.violation("C16", "single-thread|description-of-another-failure".into(), e, &[]);
            return;
        }
        Setup::Blocked(e) => {
            // a failing call that does not fail / leaves no description is C15's business; here it blocks the check
            ctx.count("harness_error");
            ctx.notes.push(format!("harness: C16 setup: {}", e));
            return;
        }
    };
    ctx.sample(|| format!("descriptions of the {} failure kinds: {:?}", N_KINDS, want));
    // a long-lived observer: this thread fails once now and looks again after hundreds of other threads have
    // come, failed and gone
    let mut observer = ThreadState::new();
    let observer_kind = 1 + (ctx.shard as usize % (N_KINDS - 1));
    observer.fail(observer_kind);
    let observed_first = observer.read();
    let thorough = ctx.tier == "thorough";
    let reduced = ctx.tier == "miri" || ctx.tier == "tsan";
    // (a) every interleaving of 2 threads x 4 steps (70) and 3 threads x 3 steps (1680), several script sets
    let sets: Vec<(Vec<usize>, u64)> = if reduced {
        // interpreters / sanitizers: all 20 interleavings of 2 x 3 steps (and, under TSan, all 90 of 3 x 2 steps)
        if ctx.tier == "miri" {
            vec![(vec![3, 3], 1)]
        } else {
            vec![(vec![3, 3], 1), (vec![2, 2, 2], 1)]
        }
    } else {
        vec![(vec![4, 4], if thorough { 40 } else { 6 }), (vec![3, 3, 3], if thorough { 6 } else { 1 })]
    };
    let mut jobs: Vec<(Vec<usize>, u64, Vec<usize>)> = vec![];
    for (lens, reps) in &sets {
        let il = interleavings(lens);
        ctx.count_n(&format!("interleavings_of_{:?}", lens), il.len() as u64);
        for rep in 0..*reps {
            for o in &il {
                jobs.push((lens.clone(), rep, o.clone()));
            }
        }
    }
    for ji in ctx.phase("forced-schedules", jobs.len() as u64) {
        if ji % 64 == 0 && ctx.out_of_time() {
            break;
        }
        ctx.begin_case(ji);
        let (lens, rep, order) = &jobs[ji as usize];
        let mut rng = Rng::for_case(ctx.seed, "c16-scripts", lens.len() as u64, *rep);
        // scripts: each thread uses its own failure kinds, begins with a failure and reads at the end
        let scripts: Vec<Vec<Step>> = lens
            .iter()
            .enumerate()
            .map(|(ti, &l)| {
                let mut s: Vec<Step> = (0..l)
                    .map(|_| match rng.below(6) {
                        // odd script sets: every thread draws from all failure kinds (threads may fail alike)
                        0 | 1 if rep % 2 == 1 => Step::Fail(rng.below(N_KINDS)),
                        0 | 1 => Step::Fail((ti * 3 + rng.below(3)) % N_KINDS),
                        2 => Step::Ok,
                        3 => Step::Recheck,
                        _ => Step::Read,
                    })
                    .collect();
                s[0] = Step::Fail((ti * 3) % N_KINDS);
                let l = s.len();
                if l >= 3 && rng.chance(1, 2) {
                    // fail, read (keep the pointer), ..., look at the kept pointer again
                    s[1] = Step::Read;
                    s[l - 1] = Step::Recheck;
                } else {
                    s[l - 1] = Step::Read;
                }
                s
            })
            .collect();
        ctx.evaluations += 1;
        ctx.count("schedules_executed");
        if ji % 997 == 0 {
            ctx.sample(|| format!("forced schedule {:?} (thread index per step) of scripts {:?}", order, scripts));
        }
        ctx.cover(&format!("sched|{:?}|{}|{:?}", lens, rep, order));
        for (ti, pc, got, wanted) in run_schedule(&scripts, order, &want) {
            ctx.count("reads_checked");
            if got != wanted {
                ctx.violation(
                    "C16",
                    "forced-schedule|wrong-description".into(),
                    format!("scripts {:?} schedule {:?}: thread {} step {} read {:?}, its latest failure says {:?}", scripts, order, ti, pc, got, wanted),
                    &[],
                );
            }
        }
    }
    // the observer's description is still its own
    let check_observer = |ctx: &mut Ctx, observer: &mut ThreadState, when: &str| {
        ctx.count("observer_reads");
        let kept = observer.recheck();
        let again = observer.read();
        if again != observed_first || again.as_deref() != Some(want[observer_kind].as_str()) || (kept.is_some() && kept != Some(observed_first.clone())) {
            ctx.violation("C16", "observer|description-changed".into(), format!("{}: a thread that failed once at the start now reads {:?} (kept pointer: {:?}), its failure says {:?}", when, again, kept, want[observer_kind]), &[]);
        }
    };
    check_observer(ctx, &mut observer, "after the forced schedules");
    // (a'') very many failures on one thread between two reads (counters of 8 or 16 bits wrap)
    for case in ctx.phase("many-failures", if ctx.tier == "miri" { 1 } else { 4 }) {
        ctx.begin_case(case);
        let n: usize = if ctx.tier == "miri" { 256 } else { [256usize, 65536, 65536, 131072][case as usize % 4] };
        let first = 2 + (case as usize % 5);
        let w = want.clone();
        let got = std::thread::spawn(move || {
            let mut st = ThreadState::new();
            st.fail(first);
            let r0 = st.read();
            for _ in 0..n - 1 {
                st.fail(0);
            }
            st.fail(1);
            let kept_before = st.read();
            (r0, kept_before)
        })
        .join();
        ctx.evaluations += 1;
        ctx.count("many_failures_cases");
        ctx.count_n("failures_between_two_reads", n as u64);
        match got {
            Err(_) => ctx.violation("C16", "many-failures|panic".into(), format!("a thread panicked during {} failing calls in a row", n), &[]),
            Ok((r0, r1)) => {
                if r0.as_deref() != Some(w[first].as_str()) || r1.as_deref() != Some(w[1].as_str()) {
                    ctx.violation(
                        "C16",
                        "many-failures|wrong-description".into(),
                        format!("read after the first failure: {:?} (want {:?}); after exactly {} further failures, the last of another kind: {:?} (want {:?})", r0, w[first], n, r1, w[1]),
                        &[],
                    );
                }
            }
        }
    }
    // (a') a failing iterator call made by a helper thread while the iterating thread waits in its callback: the
    //      helper reads its own failure, the iterating thread's earlier description stays intact
    for case in ctx.phase("callback-helper", if reduced { 4 } else { 64 }) {
        ctx.begin_case(case);
        let mode = (case % 2) as usize;
        let k1 = 1 + (case as usize / 2) % (N_KINDS - 1);
        // (on a thread of its own: this thread is the long-lived observer and must not fail again)
        let (mine, kept, again, h_ret, h_read) = std::thread::spawn(move || {
            let mut st = ThreadState::new();
            st.fail(k1);
            let mine = st.read();
            let mut h = HelperCtx { t: table(), mode, helper_ret: 0, helper_read: None };
            unsafe { (st.t.iter_answer)(&mut st.small, cb_helper, &mut h as *mut HelperCtx as *mut std::ffi::c_void) };
            let kept = st.recheck();
            let again = st.read();
            (mine, kept, again, h.helper_ret, h.helper_read)
        })
        .join()
        .unwrap_or((None, None, None, 0, None));
        struct H {
            helper_ret: c_int,
            helper_read: Option<String>,
        }
        let h = H { helper_ret: h_ret, helper_read: h_read };
        ctx.evaluations += 1;
        ctx.count("callback_helper_cases");
        ctx.cover(&format!("callback-helper|{}|k{}", mode, k1));
        let helper_want = if mode == 0 { DSError::VoidRecord.to_string() } else { want[0].clone() };
        if h.helper_ret != -1 {
            ctx.count("harness_error");
            ctx.notes.push(format!("harness: C16 callback-helper mode {}: the helper's call did not fail ({})", mode, h.helper_ret));
            continue;
        }
        if mine.as_deref() != Some(want[k1].as_str()) || again != mine || (kept.is_some() && kept != Some(mine.clone())) {
            ctx.violation(
                "C16",
                "callback-helper|iterating-thread-description-changed".into(),
                format!("the iterating thread failed with {:?} before the walk; a helper thread then failed through the cursor (mode {}) while it waited in its callback; afterwards it reads {:?} (kept pointer {:?})", mine, mode, again, kept),
                &[],
            );
        }
        if h.helper_read.as_deref() != Some(helper_want.as_str()) {
            ctx.violation(
                "C16",
                "callback-helper|helper-reads-wrong-description".into(),
                format!("the helper thread's failing call (mode {}) reads {:?}, its failure says {:?}", mode, h.helper_read, helper_want),
                &[],
            );
        }
    }
    // (b) free-running stress
    let nthreads = if ctx.tier == "miri" { 3 } else { 16 };
    let steps = if ctx.tier == "miri" { 24 } else { ctx.scaled(if thorough { 400_000 } else if ctx.tier == "tsan" { 4_000 } else { 40_000 }) as usize };
    let runs = ctx.phase("stress", if reduced { 1 } else { 4 });
    for r in runs {
        ctx.begin_case(r);
        let start = Arc::new(Barrier::new(nthreads));
        let mut hs = vec![];
        for ti in 0..nthreads {
            let (start, want) = (start.clone(), want.clone());
            let mut rng = Rng::for_case(ctx.seed, "c16-stress", r, ti as u64);
            hs.push(std::thread::spawn(move || {
                let mut st = ThreadState::new();
                let mut last: Option<usize> = None;
                let mut bad: Vec<(usize, Option<String>, Option<String>)> = vec![];
                let mut reads = 0u64;
                start.wait();
                for i in 0..steps {
                    match rng.below(8) {
                        0 | 1 | 2 => {
                            let k = rng.below(N_KINDS);
                            if k == 5 || k == 4 || k == 6 {
                                // keep the packets small: failed insertions must not change them, but be safe
                                if i % 64 == 0 {
                                    st.small = small_packet();
                                }
                            }
                            st.fail(k);
                            last = Some(k);
                        }
                        3 => {
                            st.ok();
                        }
                        4 => {
                            if let Some(got) = st.recheck() {
                                reads += 1;
                                let w = last.map(|k| want[k].clone());
                                if got != w && bad.len() < 4 {
                                    bad.push((i, got, w));
                                }
                            }
                        }
                        _ => {
                            reads += 1;
                            let got = st.read();
                            let w = last.map(|k| want[k].clone());
                            if got != w && bad.len() < 4 {
                                bad.push((i, got, w));
                            }
                        }
                    }
                }
                (bad, reads)
            }));
        }
        for (ti, h) in hs.into_iter().enumerate() {
            match h.join() {
                Ok((bad, reads)) => {
                    ctx.evaluations += 1;
                    ctx.count_n("reads_checked", reads);
                    ctx.count_n("stress_reads", reads);
                    for (i, got, w) in bad {
                        ctx.violation("C16", "stress|wrong-description".into(), format!("thread {} step {}: read {:?}, its latest failure says {:?}", ti, i, got, w), &[]);
                    }
                }
                Err(_) => ctx.violation("C16", "stress|thread-panicked".into(), format!("thread {}", ti), &[]),
            }
        }
        ctx.cover(&format!("stress|{}", r));
    }
    // many short-lived failing threads, one after the other, then the observer once more
    if ctx.tier != "miri" {
        for k in 0..600usize {
            let h = std::thread::spawn(move || {
                let mut st = ThreadState::new();
                st.fail(k % N_KINDS);
                st.read()
            });
            match h.join() {
                Ok(got) => {
                    ctx.count("short_lived_threads");
                    if got.as_deref() != Some(want[k % N_KINDS].as_str()) {
                        ctx.violation("C16", "short-lived|wrong-description".into(), format!("thread {} read {:?}", k, got), &[]);
                    }
                }
                Err(_) => ctx.violation("C16", "stress|thread-panicked".into(), "short-lived thread".into(), &[]),
            }
            if k % 150 == 149 {
                check_observer(ctx, &mut observer, "after short-lived threads");
            }
        }
    }
    check_observer(ctx, &mut observer, "at the end");
}

//! C14 — host names convert between text and wire form without loss.

use dnssector::synth::r#gen::raw_name_from_str;
use dnssector::*;

use super::*;
use crate::gen::hostile::Asm;
use crate::model::msg::*;
use crate::model::refparse::ref_uncompressed_name;
use crate::model::text::*;
use crate::mon::runaway_budget;
use crate::prng::Rng;

const ALPHA: &[u8] = &[b'a', b'B', b'0', b'-', b'_', b'.', b'\\', 0x01];

fn zones() -> Vec<Option<Name>> {
    vec![
        None,
        Some(Name::root()),
        Some(Name::from_labels(&[b"example", b"COM"])),
        Some(Name(vec![vec![b'z'; 62], vec![b'y'; 62], vec![b'x'; 62], vec![b'w'; 40]])),
    ]
}

/// Give the wire name to the only answer record of a small response and read it back.
fn round_trip(wire: &[u8]) -> Result<Option<Vec<u8>>, PanicInfo> {
    let mut a = Asm::header(9, 0x8180, 1, 1, 0, 0);
    a.label(b"q").root().u16(1).u16(1);
    a.label(b"old").label(b"name").root().rrfix(T_A, 60, 4).raw(&[1, 2, 3, 4]);
    let b = a.done();
    let w = wire.to_vec();
    guarded(runaway_budget(b.len() + 512) * 8, move || {
        let mut pp = DNSSector::new(b).unwrap().parse().unwrap();
        let mut it = pp.into_iter_answer().unwrap();
        match it.set_raw_name(&w) {
            Ok(()) => Some(it.name()),
            Err(_) => None,
        }
    })
}

fn check_record_path(ctx: &mut Ctx, s: &[u8], zone: &Option<Name>, want_text: &[u8], desc: &str) {
    // only without a default zone (RR::new takes none), and only for names whose labels hold no dot-escape
    if zone.is_some() || s.is_empty() || s == b"." {
        return;
    }
    match round_trip_via_record(s) {
        Err(p) => ctx.violation("C14", format!("record-from-text|{}", p.class()), format!("{}: {}", desc, p.msg), s),
        Ok(None) => ctx.count("record_from_text_refused"),
        Ok(Some(text)) => {
            ctx.count("round_trips_via_record");
            if text != want_text {
                ctx.violation(
                    "C14",
                    "read-back-differs|record-from-text".into(),
                    format!("{}: a record built from the text reads back as {:?} want {:?}", desc, String::from_utf8_lossy(&text), String::from_utf8_lossy(want_text)),
                    s,
                );
            }
        }
    }
}

/// Another way to give a record the name: build the record from the TEXT (`RR::new`, no character policy beyond
/// the conversion's own) and insert it into an empty response; read the owner back through the iterator.
fn round_trip_via_record(text: &[u8]) -> Result<Option<Vec<u8>>, PanicInfo> {
    let t = text.to_vec();
    guarded(runaway_budget(t.len() + 512) * 8, move || {
        let hdr = dnssector::synth::r#gen::RRHeader { name: t, ttl: 60, class: Class::IN, rr_type: Type::A };
        let rr = dnssector::synth::r#gen::RR::new(hdr, &[192, 0, 2, 1]).ok()?;
        let mut pp = ParsedPacket::empty();
        pp.set_response(true);
        pp.insert_rr(Section::Answer, rr).ok()?;
        let it = pp.into_iter_answer()?;
        Some(it.name())
    })
}

pub fn one(ctx: &mut Ctx, s: &[u8], zone: &Option<Name>, family: &str) {
    ctx.evaluations += 1;
    let nr = ref_text_name(s, zone.as_ref());
    let zw = zone.as_ref().map(|z| z.to_wire());
    let sv = s.to_vec();
    let zw2 = zw.clone();
    let r = guarded(runaway_budget(s.len() + 300), move || raw_name_from_str(&sv, zw2.as_deref()).map_err(|e| e.to_string()));
    let desc = || format!("{} name {:?} zone {:?}", family, String::from_utf8_lossy(s), zone);
    let st = match nr.status {
        NameStatus::MustAccept => "must-accept",
        NameStatus::MustReject => "must-reject",
        NameStatus::Either => "either",
    };
    ctx.count(st);
    ctx.cover(&format!("{}|{}|n{}|z{}|abs{}|len{}", family, st, nr.labels.len().min(8), zone.as_ref().map(|z| z.0.len()).unwrap_or(9), nr.absolute, s.len() / 8));
    let wire = match r {
        Err(p) => return ctx.violation("C14", format!("raw_name_from_str|{}", p.class()), format!("{}: {}", desc(), p.msg), s),
        Ok(Err(e)) => {
            ctx.count("rejected");
            if nr.status == NameStatus::MustAccept {
                ctx.violation("C14", "rejects-required-name".into(), format!("{}: {}", desc(), e), s);
            }
            return;
        }
        Ok(Ok(w)) => w,
    };
    ctx.count("accepted");
    if nr.status == NameStatus::MustReject {
        return ctx.violation("C14", "accepts-forbidden-name".into(), format!("{} -> {}", desc(), short(&wire)), s);
    }
    // the output: a well-formed pointer-free wire name <= 255 with labels <= 63 ...
    let parsed = match ref_uncompressed_name(&[&wire[..], &[0xee][..]].concat(), 0) {
        Ok(ni) if ni.end == wire.len() => ni.name,
        other => {
            return ctx.violation(
                "C14",
                "output-not-a-wellformed-name".into(),
                format!("{} -> {} ({:?})", desc(), short(&wire), other.map(|n| n.end).map_err(|e| e.as_str())),
                s,
            )
        }
    };
    // ... whose labels are exactly the input's labels (followed by the zone's when one was appended)
    let mut want = Name(nr.labels.clone());
    let zone_appended = !nr.absolute && !s.is_empty();
    if zone_appended {
        if let Some(z) = zone {
            want = want.concat(z);
        }
    }
    if parsed != want {
        return ctx.violation("C14", "labels-differ".into(), format!("{} -> {:?} want {:?}", desc(), parsed, want), s);
    }
    // read back through a record
    match round_trip(&wire) {
        Err(p) => ctx.violation("C14", format!("set_raw_name|{}", p.class()), format!("{}: {}", desc(), p.msg), s),
        Ok(None) => {
            ctx.count("set_raw_name_refused");
            let mut want_text: Vec<u8> = if nr.absolute { s[..s.len() - 1].to_vec() } else { s.to_vec() };
            want_text.make_ascii_lowercase();
            check_record_path(ctx, s, zone, &want_text, &desc());
        }
        Ok(Some(text)) => {
            ctx.count("round_trips");
            // lowercased input without its trailing dot (followed by the zone when one was appended)
            let mut want_text: Vec<u8> = if nr.absolute { s[..s.len() - 1].to_vec() } else { s.to_vec() };
            if zone_appended {
                if let Some(z) = zone {
                    if !z.is_root() {
                        want_text.push(b'.');
                        want_text.extend_from_slice(&z.to_text_lower());
                    }
                }
            }
            want_text.make_ascii_lowercase();
            check_record_path(ctx, s, zone, &want_text, &desc());
            if text != want_text {
                ctx.violation(
                    "C14",
                    "read-back-differs".into(),
                    format!("{} reads back as {:?} want {:?}", desc(), String::from_utf8_lossy(&text), String::from_utf8_lossy(&want_text)),
                    s,
                );
            }
        }
    }
}

pub fn run(ctx: &mut Ctx) {
    let zs = zones();
    // 1. exhaustive: every string of length <= L over the 8-symbol alphabet, without a zone and with one
    let maxlen = if ctx.tier == "thorough" { 8 } else { 6 };
    let mut total: u64 = 0;
    for l in 0..=maxlen {
        total += 8u64.pow(l);
    }
    let complete = ctx.only_case.is_none();
    for case in ctx.phase("exhaustive-short", total) {
        if case % 8192 == 0 && ctx.out_of_time() {
            break;
        }
        ctx.begin_case(case);
        // decode case index -> (length, digits)
        let mut k = case;
        let mut l = 0u32;
        while k >= 8u64.pow(l) {
            k -= 8u64.pow(l);
            l += 1;
        }
        let s: Vec<u8> = (0..l).map(|i| ALPHA[((k >> (3 * i)) & 7) as usize]).collect();
        one(ctx, &s, &None, "short");
        one(ctx, &s, &zs[2], "short");
    }
    if complete && !ctx.timed_out {
        ctx.exhaustive = true;
    }
    // 2. boundary grid: label lengths 61..=64 x totals 250..=256, with and without zones
    let grid: u64 = 4 * 7 * 4 * 2;
    for case in ctx.phase("boundary-grid", grid * if ctx.tier == "thorough" { 40 } else { 6 }) {
        ctx.begin_case(case);
        let mut rng = Rng::for_case(ctx.seed, "c14-grid", 0, case);
        let g = case % grid;
        let lab = 61 + (g % 4) as usize;
        let total = 250 + ((g / 4) % 7) as usize;
        let zone = &zs[((g / 28) % 4) as usize];
        let trailing = (g / 112) % 2 == 1;
        let zl = if trailing { 1 } else { zone.as_ref().map(|z| z.wire_len()).unwrap_or(1) };
        if total < zl + lab + 1 {
            continue;
        }
        // first label of length `lab`, then filler labels so that the wire total is `total`
        let mut left = total - zl - (lab + 1);
        let mut labels = vec![text_label(&mut rng, lab)];
        while left > 0 {
            let take = if left == 1 { break } else { left.min(rng.range(2, 40)) };
            let take = if left - take == 1 { take - 1 } else { take };
            if take < 2 {
                break;
            }
            labels.push(text_label(&mut rng, take - 1));
            left -= take;
        }
        if left != 0 {
            continue;
        }
        let mut s = name_to_text(&Name(labels), trailing).into_bytes();
        if rng.chance(1, 8) {
            s.make_ascii_uppercase();
        }
        ctx.count(&format!("grid:label{}:total{}", lab, total));
        one(ctx, &s, zone, "grid");
    }
    // 3. random long and odd names
    let n = ctx.scaled(if ctx.tier == "thorough" { 8_000_000 } else { 300_000 });
    for case in ctx.phase("random", n) {
        if case % 4096 == 0 && ctx.out_of_time() {
            break;
        }
        ctx.begin_case(case);
        let mut rng = Rng::for_case(ctx.seed, "c14-rand", 0, case);
        let zone = zs[rng.below(zs.len())].clone();
        let s: Vec<u8> = match rng.below(5) {
            4 => {
                // one label far beyond every limit (counters of one byte wrap at 256), alone or inside a name
                let l = *rng.pick(&[255usize, 256, 257, 263, 300, 319, 320, 512, 600]) + rng.below(2);
                let mut v: Vec<u8> = vec![];
                if rng.chance(1, 3) {
                    v.extend_from_slice(b"www.");
                }
                // (now and then everything from the 62nd byte on is a byte that is accepted but is no host-name
                // character: the label limit does not depend on what the bytes are)
                let odd = rng.chance(1, 3);
                let l = if odd && rng.chance(1, 2) { rng.range(63, 70) } else { l };
                let tail: &[u8] = if odd { b"*@!+=~" } else { b"abcxyz019" };
                v.extend((0..l).map(|i| if i >= 61 { *rng.pick(tail) } else { *rng.pick(b"abcxyz019") }));
                if rng.chance(1, 2) {
                    v.extend_from_slice(b".example");
                }
                if rng.chance(1, 3) {
                    v.push(b'.');
                }
                v
            }
            0 => {
                let n = text_name(&mut rng, 255);
                name_to_text(&n, rng.chance(1, 2)).into_bytes()
            }
            1 => {
                let n = rng.range(0, 300);
                (0..n).map(|_| *rng.pick(b"abcXYZ019-_.")).collect()
            }
            2 => {
                let n = rng.range(0, 80);
                (0..n).map(|_| if rng.chance(1, 6) { rng.u8() } else { *rng.pick(b"abcXYZ019-_. \\") }).collect()
            }
            _ => {
                let mut v = name_to_text(&text_name(&mut rng, 200), rng.chance(1, 2)).into_bytes();
                if !v.is_empty() {
                    let i = rng.below(v.len());
                    v[i] = *rng.pick(&[b'.', b'.', 0x80, 0xff, b' ', b'\\', 0]);
                }
                v
            }
        };
        one(ctx, &s, &zone, "random");
        ctx.sample(|| format!("{:?} zone {:?}", String::from_utf8_lossy(&s), zone));
    }
}

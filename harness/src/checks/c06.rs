//! C06 — compression keeps the message, stays valid and never grows the packet.

use dnssector::*;

use super::*;
use crate::gen::valid::{gen_label, gen_valid_literal, name_of_wire_len, Cfg, OptPos};
use crate::model::msg::*;
use crate::model::refparse::{refparse, STRICT};
use crate::prng::Rng;

pub fn one(ctx: &mut Ctx, x: &[u8], m: &Msg, shape: &str) {
    ctx.evaluations += 1;
    if !matches!(lib_parse(x), Ok(Ok(_))) {
        ctx.count("not_accepted");
        return;
    }
    ctx.count("accepted_pointer_free");
    let viol = |ctx: &mut Ctx, cls: &str, detail: String| {
        ctx.violation("C06", format!("compress|{}", cls), format!("{}: {}", shape, detail), x);
    };
    let c = match guarded(crate::mon::work_budget(x.len()), || Compress::compress(x).map_err(|e| e.to_string())) {
        Err(p) => {
            let kind = if p.is_budget() { "non-termination" } else { "panic" };
            return viol(ctx, &format!("{}|{}", kind, p.class()), p.msg.clone());
        }
        Ok(Err(e)) => return viol(ctx, "error-on-accepted-packet", e),
        Ok(Ok(c)) => c,
    };
    ctx.count("compressed");
    if c.len() > x.len() {
        return viol(ctx, "grew", format!("{} -> {} bytes", x.len(), c.len()));
    }
    if c.len() < x.len() {
        ctx.count("shrunk");
    }
    let dc = match refparse(&c, STRICT) {
        Err(r) => {
            return viol(
                ctx,
                &format!("output-rejected|{}{}", r.clause.as_str(), r.name_err.map(|e| format!("/{}", e.as_str())).unwrap_or_default()),
                format!("at {}: {}", r.at, short(&c)),
            )
        }
        Ok(d) => d,
    };
    if !matches!(lib_parse(&c), Ok(Ok(_))) {
        return viol(ctx, "output-rejected-by-parser", short(&c));
    }
    ctx.count_n("pointers_emitted", dc.layout.pointers as u64);
    ctx.maximum("max_chain_emitted", dc.layout.max_chain as u64);
    // same header, same record sequence (OPT and its options included), names equal up to ASCII case,
    // the question name byte-identical. "Every pointer designates the suffix it stands for" is exactly this.
    if let Some(diff) = dc.msg.diff(m, true, true) {
        let cls = if diff.contains("count") { "record-sequence-changed" } else if diff.contains("question") { "question-changed" } else { "record-changed" };
        return viol(ctx, cls, format!("{} :: {}", diff, short(&c)));
    }
    // decompressing the result gives the input back, up to name case
    match guarded(crate::mon::work_budget(c.len()) * 4, || Compress::uncompress(&c).map_err(|e| e.to_string())) {
        Ok(Ok(u)) => {
            if u.len() != x.len() {
                return viol(ctx, "roundtrip-length", format!("{} vs {}", u.len(), x.len()));
            }
            match refparse(&u, STRICT) {
                Ok(du) if du.msg.diff(m, true, true).is_none() && du.layout.pointers == 0 => ctx.count("roundtrip_ok"),
                _ => return viol(ctx, "roundtrip-differs", short(&u)),
            }
        }
        Ok(Err(e)) => return viol(ctx, "roundtrip-error", e),
        Err(p) => return viol(ctx, &format!("roundtrip|{}", p.class()), p.msg.clone()),
    }
}

fn rec(name: Name, rtype: u16, rdata: RData) -> Record {
    Record { name, rtype, class: 1, ttl: 300, rdata }
}

fn a_rec(name: Name) -> Record {
    rec(name, T_A, RData::A([192, 0, 2, 1]))
}

fn opt_rec() -> Record {
    Record { name: Name::root(), rtype: T_OPT, class: 4096, ttl: 0x8000, rdata: RData::Opt(vec![(10, vec![1, 2, 3, 4, 5, 6, 7, 8]), (12, vec![])]) }
}

pub const STRESS: &[&str] = &[
    "nested-suffixes>16",
    "distinct-suffixes>32",
    "suffix>127",
    "names-beyond-16383",
    "mixed-case-duplicates",
    "opt-first",
    "opt-middle",
    "shortened-before-remembered",
    "rdata-names-all-types",
    "many-identical",
    "near-equal-names",
    "names-beyond-65535",
    "earlier-name-as-prefix",
    "wrapped-table-long-names",
];

/// Which family a stress case belongs to: spread so that no family lands on a fixed subset of the shards
/// (case k runs on shard k % nshards).
pub fn stress_family(case: u64) -> usize {
    ((case.wrapping_mul(0x9E37_79B9_7F4A_7C15) >> 33) as usize) % STRESS.len()
}

/// Stress families of the property's quantifier, as abstract messages (encoded pointer-free).
pub fn stress(rng: &mut Rng, fam: usize) -> Msg {
    let mut m = Msg { id: rng.u16(), flags: 0x8180, ..Default::default() };
    let cfg = Cfg { alphabet: 8, ..Default::default() };
    let lab = |rng: &mut Rng| -> Vec<u8> { gen_label(rng, &Cfg { alphabet: 12, mixed_case: false, long_names: false, ..Default::default() }) };
    // the question is remembered first (or not at all: the root, or a name longer than the dictionary keeps)
    // (family 0 with the root as question: the nesting is then the ONLY thing the dictionary ever holds)
    let qname = match if matches!(fam, 5 | 6 | 7 | 8) { 7 } else if fam == 0 { rng.below(2) * 7 } else { rng.below(8) } {
        0 => Name::root(),
        1 => {
            let w = rng.range(130, 220);
            name_of_wire_len(rng, w)
        }
        _ => Name::from_labels(&[b"q", b"example", b"com"]),
    };
    m.question.push(Question { name: qname, qtype: 1, qclass: 1 });
    match fam {
        0 => {
            // x1.com, x2.x1.com, x3.x2.x1.com ... around and beyond 16 levels (each new name can point into the
            // previous one); the deepest name is used again at the end
            let depth = if rng.chance(2, 3) { rng.range(14, 20) } else { rng.range(18, 40) };
            let mut n = Name::from_labels(&[b"com"]);
            // in one section and in nesting order (each name can then point into the one just before it, which
            // gives the longest chains), or spread over the sections; the question may be the innermost name
            let single = rng.chance(1, 2);
            if single && rng.chance(1, 2) {
                m.question[0].name = n.clone();
            }
            for i in 0..depth {
                let mut l = vec![b'x'];
                l.extend_from_slice(i.to_string().as_bytes());
                n = Name(vec![l]).concat(&n);
                let s = if single { 0 } else { rng.below(3) };
                m.sec[s].push(a_rec(n.clone()));
            }
            // keep section order (an, ns, ar) meaningful: names were pushed in creation order per section
            if rng.chance(2, 3) {
                m.sec[if single { 0 } else { 2 }].push(a_rec(n.clone()));
            }
        }
        1 => {
            // more than 32 distinct suffixes, each used twice, first one reused at the end (pinned entry)
            let k = rng.range(34, 70);
            let mut doms = vec![];
            for i in 0..k {
                let mut l = b"d".to_vec();
                l.extend_from_slice(i.to_string().as_bytes());
                let d = Name(vec![l, lab(rng)]);
                doms.push(d.clone());
                m.sec[0].push(a_rec(Name(vec![b"www".to_vec()]).concat(&d)));
            }
            for d in doms.iter().rev() {
                m.sec[1].push(rec(d.clone(), T_NS, RData::Name(Name(vec![b"ns".to_vec()]).concat(d))));
            }
            m.sec[2].push(a_rec(m.question[0].name.clone()));
        }
        2 => {
            // shared suffix longer than 127 bytes
            let w = rng.range(129, 230);
            let suf = name_of_wire_len(rng, w);
            for _ in 0..rng.range(3, 8) {
                let n = Name(vec![lab(rng)]).concat(&suf);
                if n.wire_len() <= 255 {
                    m.sec[0].push(rec(n.clone(), T_CNAME, RData::Name(suf.clone())));
                }
            }
            m.sec[1].push(rec(suf.clone(), T_NS, RData::Name(Name(vec![b"a".to_vec()]).concat(&suf.clone()))));
        }
        3 => {
            // names first occurring beyond offset 16383 (not addressable by a 14-bit pointer)
            let far = Name(vec![lab(rng), b"far".to_vec(), b"example".to_vec()]);
            // half of the time a label of the far name starts exactly at offset 16384 (or one before / after):
            // the first offset a 14-bit pointer cannot express
            let before = 12 + m.question[0].name.wire_len() + 4 + 5 + 10;
            let pad = if rng.chance(1, 2) {
                let into = match rng.below(3) {
                    0 => 0,
                    1 => far.0[0].len() + 1,
                    _ => far.0[0].len() + 1 + far.0[1].len() + 1,
                };
                (16384 + rng.range(0, 2) - 1 - before).saturating_sub(into)
            } else {
                rng.range(16300, 16500)
            };
            m.sec[0].push(rec(Name::from_labels(&[b"pad"]), T_TXT, RData::Opaque(vec![0xc0; pad])));
            for _ in 0..rng.range(2, 6) {
                m.sec[0].push(a_rec(far.clone()));
                m.sec[1].push(rec(far.clone(), T_NS, RData::Name(Name(vec![b"ns".to_vec()]).concat(&far))));
            }
            m.sec[2].push(a_rec(m.question[0].name.clone()));
        }
        4 => {
            let base = Name::from_labels(&[b"www", b"Example", b"COM"]);
            for _ in 0..rng.range(3, 10) {
                let mut n = base.clone();
                for l in n.0.iter_mut() {
                    for c in l.iter_mut() {
                        if rng.chance(1, 2) {
                            *c = if c.is_ascii_lowercase() { c.to_ascii_uppercase() } else { c.to_ascii_lowercase() };
                        }
                    }
                }
                m.sec[rng.below(3)].push(rec(n.clone(), T_CNAME, RData::Name(n)));
            }
        }
        5 | 6 => {
            let q = m.question[0].name.clone();
            m.sec[0].push(a_rec(q.clone()));
            if fam == 5 {
                m.sec[2].push(opt_rec());
            }
            m.sec[2].push(a_rec(Name(vec![b"ns1".to_vec()]).concat(&q)));
            if fam == 6 {
                m.sec[2].push(opt_rec());
            }
            m.sec[2].push(rec(q.clone(), T_AAAA, RData::Aaaa([1; 16])));
            m.sec[2].push(rec(Name(vec![b"ns2".to_vec()]).concat(&q), T_AAAA, RData::Aaaa([2; 16])));
        }
        7 => {
            // an earlier name is shortened (it matches the question), then a new suffix is first seen
            let q = m.question[0].name.clone();
            for _ in 0..rng.range(1, 4) {
                m.sec[0].push(a_rec(q.clone()));
            }
            let fresh = Name(vec![lab(rng), b"other".to_vec(), b"net".to_vec()]);
            m.sec[0].push(rec(q.clone(), T_CNAME, RData::Name(fresh.clone())));
            for _ in 0..rng.range(1, 4) {
                m.sec[0].push(a_rec(fresh.clone()));
                m.sec[1].push(rec(Name(fresh.0[1..].to_vec()), T_NS, RData::Name(Name(vec![b"ns".to_vec()]).concat(&fresh))));
            }
        }
        8 => {
            let q = m.question[0].name.clone();
            let z = Name(q.0[1..].to_vec());
            m.sec[0].push(rec(q.clone(), T_CNAME, RData::Name(Name(vec![b"alias".to_vec()]).concat(&z))));
            m.sec[0].push(rec(z.clone(), T_MX, RData::Mx(10, Name(vec![b"mail".to_vec()]).concat(&z))));
            m.sec[1].push(rec(z.clone(), T_SOA, RData::Soa(Name(vec![b"ns".to_vec()]).concat(&z), Name(vec![b"hostmaster".to_vec()]).concat(&z), [9; 20])));
            m.sec[1].push(rec(z.clone(), T_NS, RData::Name(Name(vec![b"ns".to_vec()]).concat(&z))));
            m.sec[2].push(rec(Name::from_labels(&[b"1", b"2", b"0", b"192", b"in-addr", b"arpa"]), T_PTR, RData::Name(q.clone())));
            m.sec[2].push(rec(z.clone(), T_DNAME, RData::Dname(Name(vec![b"dn".to_vec()]).concat(&z))));
            m.sec[2].push(rec(z.clone(), T_TXT, RData::Opaque(q.to_wire())));
        }
        9 => {
            let n = crate::gen::valid::gen_name(rng, &cfg, 120);
            for _ in 0..rng.range(10, 60) {
                m.sec[rng.below(3)].push(a_rec(n.clone()));
            }
        }
        11 => {
            // output larger than 64 KiB: suffixes first seen at positions 65536.. (which wrap to small numbers in
            // 16 bits) are used again afterwards, next to suffixes seen early
            let early = Name(vec![lab(rng), b"early".to_vec(), b"example".to_vec()]);
            m.sec[0].push(a_rec(early.clone()));
            let before = 12 + m.question[0].name.wire_len() + 4 + early.wire_len() + 14;
            let want = if rng.chance(1, 2) { 65536 + rng.below(300) } else { rng.range(65536, 81919) };
            let mut left = want.saturating_sub(before);
            while left > 0 {
                let chunk = left.min(60000).max(16);
                let payload = chunk.saturating_sub(5 + 10).max(1);
                m.sec[0].push(rec(Name::from_labels(&[b"pad"]), T_TXT, RData::Opaque(vec![0xc0; payload])));
                left = left.saturating_sub(payload + 15);
            }
            let far = Name(vec![lab(rng), b"late".to_vec(), b"example".to_vec()]);
            for _ in 0..rng.range(2, 6) {
                m.sec[0].push(a_rec(far.clone()));
                m.sec[1].push(rec(far.clone(), T_NS, RData::Name(Name(vec![b"ns".to_vec()]).concat(&far))));
                m.sec[1].push(rec(early.clone(), T_NS, RData::Name(Name(vec![b"ns".to_vec()]).concat(&early))));
            }
            m.sec[2].push(a_rec(m.question[0].name.clone()));
        }
        12 => {
            // a later name begins with the labels of an entire earlier name and goes on ("example.com" then
            // "example.com.cdn.net"): sharing a *prefix* is not sharing a suffix
            let first = Name(vec![lab(rng), lab(rng)]);
            m.sec[0].push(a_rec(first.clone()));
            for _ in 0..rng.range(2, 6) {
                let tail = Name((0..rng.range(1, 3)).map(|_| lab(rng)).collect());
                let longer = first.concat(&tail);
                m.sec[rng.below(3)].push(a_rec(longer.clone()));
                m.sec[rng.below(3)].push(rec(tail.clone(), T_NS, RData::Name(longer.clone())));
                m.sec[rng.below(3)].push(rec(first.clone(), T_CNAME, RData::Name(Name(vec![lab(rng)]).concat(&longer))));
            }
        }
        13 => {
            // the suffix table has wrapped (more than 32 distinct suffixes), then names longer than 127 bytes whose
            // tails are remembered, each immediately followed by every domain again (one of them sits in the slot
            // under the cursor)
            let k = rng.range(34, 48);
            let doms: Vec<Name> = (0..k)
                .map(|i| {
                    let mut l = b"d".to_vec();
                    l.extend_from_slice(i.to_string().as_bytes());
                    Name(vec![l, b"zone".to_vec()])
                })
                .collect();
            for d in &doms {
                m.sec[0].push(a_rec(d.clone()));
            }
            for _ in 0..rng.range(1, 4) {
                let d = rng.pick(&doms).clone();
                let w = rng.range(130, 240).min(255 - d.wire_len());
                let long = Name(name_of_wire_len(rng, w).0.into_iter().chain(d.0.clone().into_iter()).collect());
                if long.wire_len() <= 255 {
                    m.sec[1].push(rec(d.clone(), T_NS, RData::Name(long)));
                }
                let start = rng.below(doms.len());
                for j in 0..doms.len() {
                    let e = &doms[(start + j) % doms.len()];
                    m.sec[1].push(rec(e.clone(), T_NS, RData::Name(Name(vec![b"ns".to_vec()]).concat(e))));
                }
            }
        }
        _ => {
            // names that differ from each other in exactly one byte (one bit, one step, or the split into
            // labels): only ASCII-case variants may share a suffix entry, everything else must stay distinct
            let base_labels: Vec<Vec<u8>> = vec![
                (0..rng.range(2, 8)).map(|_| *rng.pick(b"@[]^_`{}~09az-!*+=")).collect(),
                (0..rng.range(2, 12)).map(|_| *rng.pick(&[0x80u8, 0xa0, 0xc1, 0xe1, b'A', b'a', b'[', b'{', b'@', b'`', b'1', b'q'])).collect(),
                b"example".to_vec(),
            ];
            let base = Name(base_labels);
            let mut variants = vec![base.clone()];
            for _ in 0..rng.range(3, 9) {
                let mut v = base.clone();
                let li = rng.below(2);
                let bi = rng.below(v.0[li].len());
                let c = v.0[li][bi];
                let nc = match rng.below(4) {
                    0 | 1 => c ^ 0x20,
                    2 => c.wrapping_add(1),
                    _ => c ^ 0x80,
                };
                if !(nc < 0x21 || nc == 0x7f || nc == b'.' || nc == b'\\') {
                    v.0[li][bi] = nc;
                }
                if rng.chance(1, 4) && v.0[0].len() >= 2 {
                    // same bytes, different label split
                    let cut = rng.range(1, v.0[0].len() - 1);
                    let tail = v.0[0].split_off(cut);
                    v.0.insert(1, tail);
                }
                variants.push(v);
            }
            for v in &variants {
                let host = Name(vec![b"www".to_vec()]).concat(v);
                m.sec[rng.below(3)].push(a_rec(host.clone()));
                m.sec[rng.below(3)].push(rec(v.clone(), T_NS, RData::Name(Name(vec![b"ns".to_vec()]).concat(v))));
                if rng.chance(1, 3) {
                    m.sec[rng.below(2)].push(rec(v.clone(), T_MX, RData::Mx(5, host)));
                }
            }
        }
    }
    m
}

pub fn run(ctx: &mut Ctx) {
    let n = ctx.scaled(if ctx.tier == "thorough" { 6_000_000 } else { 200_000 });
    for case in ctx.phase("literal", n) {
        if case % 1024 == 0 && ctx.out_of_time() {
            break;
        }
        ctx.begin_case(case);
        let mut rng = Rng::for_case(ctx.seed, "c06", 0, case);
        let cfg = Cfg {
            alphabet: *rng.pick(&[2usize, 3, 5, 20]),
            max_records: if rng.chance(1, 10) { 60 } else { 14 },
            ..Default::default()
        };
        let v = gen_valid_literal(&mut rng, &cfg);
        match refparse(&v.bytes, STRICT) {
            Ok(d) if d.msg == v.msg && d.layout.pointers == 0 && v.bytes == v.msg.encode_literal() => {
                let sh = super::c03::shape_of(&d, v.opt_pos);
                ctx.cover(&sh);
                ctx.count(&format!("opt:{:?}", v.opt_pos));
                one(ctx, &v.bytes, &v.msg, &sh);
                ctx.sample(|| format!("{} :: {}", sh, short(&v.bytes)));
            }
            _ => {
                ctx.count("harness_error");
                ctx.notes.push(format!("harness: literal G-valid packet inconsistent: {}", short(&v.bytes)));
            }
        }
    }
    let m = ctx.scaled(if ctx.tier == "thorough" { 600_000 } else { 24_000 });
    for case in ctx.phase("stress", m) {
        if case % 256 == 0 && ctx.out_of_time() {
            break;
        }
        ctx.begin_case(case);
        let mut rng = Rng::for_case(ctx.seed, "c06-stress", 0, case);
        let fam = stress_family(case);
        let msg = stress(&mut rng, fam);
        let x = msg.encode_literal();
        match refparse(&x, STRICT) {
            Ok(d) if d.msg == msg => {
                ctx.count(&format!("stress:{}", STRESS[fam]));
                ctx.cover(&format!("stress|{}|n{}|l{}", STRESS[fam], msg.n_records().min(80), x.len() / 512));
                one(ctx, &x, &msg, STRESS[fam]);
            }
            _ => {
                ctx.count("harness_error");
                ctx.notes.push(format!("harness: stress family {} not well-formed: {}", STRESS[fam], short(&x)));
            }
        }
    }
    // outputs of the library's own decompression are in the domain too
    let k = ctx.scaled(if ctx.tier == "thorough" { 2_000_000 } else { 80_000 });
    for case in ctx.phase("uncompressed-outputs", k) {
        if case % 1024 == 0 && ctx.out_of_time() {
            break;
        }
        ctx.begin_case(case);
        let mut rng = Rng::for_case(ctx.seed, "c05", 0, case);
        let v = crate::gen::valid::gen_valid(&mut rng, &Cfg::default());
        let lit = v.msg.encode_literal();
        let sh = format!("u|{:?}|{}", v.opt_pos, v.msg.n_records().min(20));
        ctx.cover(&sh);
        one(ctx, &lit, &v.msg, &sh);
    }
    let _ = OptPos::None;
}

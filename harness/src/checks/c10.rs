//! C10 — a failed operation changes nothing; the size limit cannot be bypassed.
use super::hist::*;
use super::*;

pub fn run(ctx: &mut Ctx) {
    let n = ctx.scaled(if ctx.tier == "thorough" { 5_000_000 } else { 160_000 });
    drive(ctx, Prop::C10, "hist-err", n, Mix { error_sixteenths: 8, max_steps: 16, big_start: false });
    // packets larger than 8192 bytes (as arrive over TCP): insertion must say "too large", never panic
    let n = ctx.scaled(if ctx.tier == "thorough" { 60_000 } else { 2_400 });
    drive(ctx, Prop::C10, "hist-big", n, Mix { error_sixteenths: 4, max_steps: 6, big_start: true });
}

//! C10 — a failed operation changes nothing; the size limit cannot be bypassed.
use super::hist::*;
use super::*;

pub fn run(ctx: &mut Ctx) {
    let n = ctx.scaled(if ctx.tier == "thorough" { 5_000_000 } else { 160_000 });
    drive(ctx, Prop::C10, "hist-err", n, Mix { error_sixteenths: 8, max_steps: 16, big_start: false, near_limit: 0, want: Prop::C10 });
    // packets larger than 8192 bytes (as arrive over TCP): insertion must say "too large", never panic
    let n = ctx.scaled(if ctx.tier == "thorough" { 60_000 } else { 2_400 });
    drive(ctx, Prop::C10, "hist-big", n, Mix { error_sixteenths: 4, max_steps: 6, big_start: true, near_limit: 0, want: Prop::C10 });
    // compressed packets whose pointer-free size is just under a limit: the limit applies to what the packet
    // becomes, not to what it is on the wire
    let n = ctx.scaled(if ctx.tier == "thorough" { 60_000 } else { 2_400 });
    drive(ctx, Prop::C10, "hist-near-8192", n, Mix { error_sixteenths: 2, max_steps: 5, big_start: false, near_limit: 8192, want: Prop::C10 });
    let n = ctx.scaled(if ctx.tier == "thorough" { 8_000 } else { 320 });
    drive(ctx, Prop::C10, "hist-near-65535", n, Mix { error_sixteenths: 2, max_steps: 4, big_start: false, near_limit: 65535, want: Prop::C10 });
    // accepted packets that are already larger than 65535 bytes: nothing may grow, everything may shrink
    let n = ctx.scaled(if ctx.tier == "thorough" { 4_000 } else { 160 });
    drive(ctx, Prop::C10, "hist-above-65535", n, Mix { error_sixteenths: 2, max_steps: 4, big_start: false, near_limit: 70000, want: Prop::C10 });
    // ... and packets well under 64 KiB on the wire that decompress to more than 65535 bytes
    let n = ctx.scaled(if ctx.tier == "thorough" { 2_000 } else { 96 });
    drive(ctx, Prop::C10, "hist-decompresses-above-65535", n, Mix { error_sixteenths: 2, max_steps: 4, big_start: false, near_limit: 70001, want: Prop::C10 });
}

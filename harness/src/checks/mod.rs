//! One oracle module per property.

use dnssector::{DNSSector, ParsedPacket};

use crate::mon::{guarded, Ctx, PanicInfo};

pub mod c01;
pub mod c02;
pub mod c03;
pub mod c04;
pub mod c05;
pub mod c06;
pub mod c07;
pub mod c08;
pub mod c09;
pub mod c10;
pub mod c11;
pub mod hist;
pub mod fuzz;
pub mod c12;
pub mod c13;
pub mod c14;
pub mod c15;
pub mod c16;
pub mod c17;
pub mod c18;

/// Budget for `parse`: far above the C18 bound, so that only a runaway trips it.
pub fn parse_budget(len: usize) -> u64 {
    256 * len as u64 + 262_144
}

/// Run the library's parser under the monitors.
pub fn lib_parse(x: &[u8]) -> Result<Result<ParsedPacket, String>, PanicInfo> {
    let v = x.to_vec();
    guarded(parse_budget(x.len()), move || match DNSSector::new(v) {
        Ok(ds) => ds.parse().map_err(|e| e.to_string()),
        Err(e) => Err(e.to_string()),
    })
}

pub fn run(ctx: &mut Ctx) -> bool {
    match ctx.check.as_str() {
        "C01" => c01::run(ctx),
        "C02" => c02::run(ctx),
        "C03" => c03::run(ctx),
        "C04" => c04::run(ctx),
        "C05" => c05::run(ctx),
        "C06" => c06::run(ctx),
        "C07" => c07::run(ctx),
        "C08" => c08::run(ctx),
        "C09" => c09::run(ctx),
        "C10" => c10::run(ctx),
        "C11" => c11::run(ctx),
        "C12" => c12::run(ctx),
        "C13" => c13::run(ctx),
        "C14" => c14::run(ctx),
        "C15" => c15::run(ctx),
        "C16" => c16::run(ctx),
        "C17" => c17::run(ctx),
        "C18" => c18::run(ctx),
        _ => return false,
    }
    true
}

pub fn short(x: &[u8]) -> String {
    let h = crate::model::msg::hex(&x[..x.len().min(160)]);
    if x.len() > 160 {
        format!("{}..({} bytes)", h, x.len())
    } else {
        h
    }
}

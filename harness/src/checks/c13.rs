//! C13 — record text synthesises to the right wire record; bad text is an error.

use dnssector::synth::r#gen::RR;
use dnssector::*;

use super::*;
use crate::gen::valid::{gen_valid, Cfg};
use crate::model::msg::*;
use crate::model::refparse::{refparse, STRICT};
use crate::model::text::*;
use crate::mon::runaway_budget;
use crate::prng::Rng;

fn from_string(text: &str) -> Result<Result<Vec<u8>, String>, PanicInfo> {
    guarded(runaway_budget(text.len()), || {
        RR::from_string(text)
            .map(|rr| {
                // the record's own view of its data: exactly the bytes after the fixed part
                let rd = rr.rdata().to_vec();
                let mut p = rr.packet;
                let n = p.len();
                if n < rd.len() || p[n - rd.len()..] != rd[..] || n - rd.len() < 10 || u16::from_be_bytes([p[n - rd.len() - 2], p[n - rd.len() - 1]]) as usize != rd.len() {
                    // make the disagreement visible to the caller's comparison with the reference wire form
                    p.extend_from_slice(b"<rdata() disagrees with the record>");
                }
                p
            })
            .map_err(|e| e.to_string())
    })
}

/// Is `rec_wire` a well-formed record? (wrapped in a response and given to the reference)
fn wellformed_record(rec_wire: &[u8]) -> bool {
    let mut m = Msg { id: 1, flags: 0x8000, ..Default::default() };
    m.question.push(Question { name: Name::root(), qtype: 1, qclass: 1 });
    let mut b = m.header().to_vec();
    b[7] = 1;
    b.extend_from_slice(&m.question[0].wire_literal());
    b.extend_from_slice(rec_wire);
    refparse(&b, STRICT).is_ok()
}

fn oracle_a(ctx: &mut Ctx, rng: &mut Rng) {
    let tc = valid_text(rng, None);
    ctx.evaluations += 1;
    ctx.count(&format!("valid:{}", tc.kind));
    let key = format!(
        "A|{}|o{}|l{}|ttl{}",
        tc.kind,
        tc.rec.name.0.len().min(6),
        tc.wire.len() / 64,
        match tc.rec.ttl {
            0 => 0,
            u32::MAX => 2,
            _ => 1,
        }
    );
    ctx.cover(&key);
    let x = tc.text.as_bytes();
    match from_string(&tc.text) {
        Err(p) => ctx.violation("C13", format!("from_string|{}", p.class()), format!("valid {} text: {}", tc.kind, p.msg), x),
        Ok(Err(e)) => ctx.violation("C13", format!("valid-text-rejected|{}", tc.kind), format!("{} :: {:?}", e, &tc.text[..tc.text.len().min(300)]), x),
        Ok(Ok(w)) => {
            ctx.count("valid_accepted");
            if w != tc.wire {
                ctx.violation(
                    "C13",
                    format!("wrong-wire|{}", tc.kind),
                    format!("text {:?} -> {} want {}", &tc.text[..tc.text.len().min(200)], short(&w), short(&tc.wire)),
                    x,
                );
                return;
            }
            // insert into a valid packet: the result must be accepted and hold the record in that section, everything else
            // unchanged (WHERE in the section the record lands is C09's statement, not this one's)
            let sec = rng.below(3);
            let cfg = Cfg { response: if sec < 2 { Some(true) } else { None }, max_records: 6, ..Default::default() };
            let v = gen_valid(rng, &cfg);
            let section = [Section::Answer, Section::NameServers, Section::Additional][sec];
            let mut pp = match lib_parse(&v.bytes) {
                Ok(Ok(pp)) => pp,
                _ => return,
            };
            let text = tc.text.clone();
            let r = guarded(runaway_budget(v.bytes.len() + 4096) * 8, move || {
                let r = pp.insert_rr_from_string(section, &text).map_err(|e| e.to_string());
                (r, pp.packet.clone())
            });
            match r {
                Err(p) => ctx.violation("C13", format!("insert|{}", p.class()), format!("{} into section {}: {}", tc.kind, sec, p.msg), &v.bytes),
                Ok((Err(e), _)) => {
                    let literal_len = v.msg.encode_literal().len() + tc.wire.len();
                    if literal_len > 8192 {
                        ctx.count("insert_too_large");
                    } else {
                        ctx.violation("C13", format!("insert-rejected|{}", tc.kind), format!("section {}: {}", sec, e), &v.bytes);
                    }
                }
                Ok((Ok(()), None)) => ctx.violation("C13", "insert|packet-lost".into(), "no packet after insertion".into(), &v.bytes),
                Ok((Ok(()), Some(b))) => {
                    ctx.count("inserted");
                    let mut want = v.msg.clone();
                    want.sec[sec].push(tc.rec.clone());
                    let mut inserted: Vec<(usize, Record)> = vec![(sec, tc.rec.clone())];
                    // a second record into another section of the same object (bookkeeping of the first must hold)
                    let (b, want) = if rng.chance(1, 3) && v.msg.is_response() {
                        let tc2 = valid_text(rng, None);
                        let sec2 = (sec + 1 + rng.below(2)) % 3;
                        let section2 = [Section::Answer, Section::NameServers, Section::Additional][sec2];
                        let bb = b.clone();
                        let t1 = tc.text.clone();
                        let t2 = tc2.text.clone();
                        let vb = v.bytes.clone();
                        let r2 = guarded(runaway_budget(bb.len() + 8192) * 8, move || {
                            let mut pp = DNSSector::new(vb).unwrap().parse().ok()?;
                            pp.insert_rr_from_string(section, &t1).ok()?;
                            pp.insert_rr_from_string(section2, &t2).ok()?;
                            pp.packet.clone()
                        });
                        match r2 {
                            Ok(Some(b2)) => {
                                ctx.count("double_insertions");
                                let mut w2 = want.clone();
                                w2.sec[sec2].push(tc2.rec.clone());
                                inserted.push((sec2, tc2.rec.clone()));
                                (b2, w2)
                            }
                            Ok(None) => (b, want),
                            Err(p) => {
                                ctx.violation("C13", format!("insert|{}", p.class()), format!("second insertion: {}", p.msg), &v.bytes);
                                (b, want)
                            }
                        }
                    } else {
                        (b, want)
                    };
                    match refparse(&b, STRICT) {
                        Err(rj) => ctx.violation("C13", format!("insert|output-rejected|{}", rj.clause.as_str()), format!("{} into section {} at {}: {}", tc.kind, sec, rj.at, short(&b)), &v.bytes),
                        Ok(d) => {
                            if !matches!(lib_parse(&b), Ok(Ok(_))) {
                                ctx.violation("C13", "insert|output-rejected-by-parser".into(), short(&b), &v.bytes);
                            } else if let Some(diff) = d.msg.diff_unordered_insert(&want, &inserted) {
                                ctx.violation("C13", "insert|wrong-message".into(), format!("section {}: {}", sec, diff), &v.bytes);
                            }
                        }
                    }
                }
            }
        }
    }
    ctx.sample(|| format!("valid {}: {:?}", tc.kind, &tc.text[..tc.text.len().min(160)]));
}

fn oracle_b(ctx: &mut Ctx, rng: &mut Rng) {
    let (text, kind) = damaged_text(rng);
    ctx.evaluations += 1;
    ctx.count(&format!("damaged:{}", kind));
    ctx.cover(&format!("B|{}|{}", kind, text.len() / 16));
    match from_string(&text) {
        Err(p) => ctx.violation("C13", format!("from_string|{}", p.class()), format!("damaged ({}) text {:?}: {}", kind, text, p.msg), text.as_bytes()),
        Ok(Ok(w)) => ctx.violation("C13", format!("damaged-text-accepted|{}", kind), format!("{:?} -> {}", text, short(&w)), text.as_bytes()),
        Ok(Err(_)) => ctx.count("damaged_rejected"),
    }
}

fn arbitrary_string(rng: &mut Rng) -> String {
    match rng.below(6) {
        0 => {
            // random unicode
            let n = rng.range(0, 40);
            (0..n).map(|_| char::from_u32(rng.u32() % 0x11_0000).unwrap_or('x')).collect()
        }
        1 => {
            let n = rng.range(0, 60);
            (0..n).map(|_| *rng.pick(b" \t.\"\\()0123456789abcdefINinAaMXTSOD:-_\n") as char).collect()
        }
        _ => {
            // mutated valid / damaged text
            let mut s: Vec<char> = if rng.chance(3, 4) { valid_text(rng, None).text.chars().collect() } else { damaged_text(rng).0.chars().collect() };
            for _ in 0..rng.range(1, 4) {
                if s.is_empty() {
                    break;
                }
                let i = rng.below(s.len());
                match rng.below(5) {
                    0 => {
                        s.remove(i);
                    }
                    1 => s.insert(i, *rng.pick(&['"', '\\', '.', ' ', '(', ')', '0', '9', 'z', '\u{0}', '\u{e9}', '\n', ':'])),
                    2 => s[i] = *rng.pick(&['"', '\\', '.', ' ', '(', ')', '1', 'a', '\u{7f}', '\u{ff}', '\t']),
                    3 => s.truncate(i),
                    _ => {
                        let j = rng.below(s.len());
                        s.swap(i, j);
                    }
                }
            }
            s.into_iter().collect()
        }
    }
}

fn oracle_c(ctx: &mut Ctx, rng: &mut Rng) {
    let text = arbitrary_string(rng);
    oracle_c_on(ctx, &text);
}

pub fn oracle_c_on(ctx: &mut Ctx, text: &str) {
    let text = text.to_string();
    ctx.evaluations += 1;
    match from_string(&text) {
        Err(p) => ctx.violation("C13", format!("from_string|{}", p.class()), format!("arbitrary text {:?}: {}", &text.chars().take(120).collect::<String>(), p.msg), text.as_bytes()),
        Ok(Ok(w)) => {
            ctx.count("arbitrary_accepted");
            ctx.cover(&format!("C|ok|{}|{}", w.len() / 32, text.len() / 32));
            if !wellformed_record(&w) {
                ctx.violation("C13", "returned-record-malformed".into(), format!("{:?} -> {}", &text.chars().take(200).collect::<String>(), short(&w)), text.as_bytes());
            }
        }
        Ok(Err(_)) => {
            ctx.count("arbitrary_rejected");
            ctx.cover(&format!("C|err|{}", text.len() / 32));
        }
    }
}

pub fn run(ctx: &mut Ctx) {
    // records at the edge of the 16-bit RDLENGTH: whatever is returned must be a well-formed record
    for case in ctx.phase("huge-rdata", 12) {
        ctx.begin_case(case);
        let digest_len = [65529usize, 65530, 65531, 65532, 65533, 65540][(case % 6) as usize];
        let text = format!("big.example. 1 IN DS 1 2 3 {}", "ab".repeat(digest_len));
        oracle_c_on(ctx, &text);
        ctx.count("huge_rdata_texts");
    }
    let n = ctx.scaled(if ctx.tier == "thorough" { 6_000_000 } else { 240_000 });
    for case in ctx.phase("valid-texts", n) {
        if case % 1024 == 0 && ctx.out_of_time() {
            break;
        }
        ctx.begin_case(case);
        let mut rng = Rng::for_case(ctx.seed, "c13-a", 0, case);
        oracle_a(ctx, &mut rng);
    }
    let n = ctx.scaled(if ctx.tier == "thorough" { 2_000_000 } else { 80_000 });
    for case in ctx.phase("damaged-texts", n) {
        ctx.begin_case(case);
        let mut rng = Rng::for_case(ctx.seed, "c13-b", 0, case);
        oracle_b(ctx, &mut rng);
    }
    let n = ctx.scaled(if ctx.tier == "thorough" { 20_000_000 } else { 800_000 });
    for case in ctx.phase("arbitrary-strings", n) {
        if case % 4096 == 0 && ctx.out_of_time() {
            break;
        }
        ctx.begin_case(case);
        let mut rng = Rng::for_case(ctx.seed, "c13-c", 0, case);
        oracle_c(ctx, &mut rng);
    }
}

//! C03 — every accepted packet reads back completely and faithfully via the iterators.

use std::net::IpAddr;

use dnssector::*;

use super::*;
use crate::gen::valid::{gen_valid, Cfg, OptPos};
use crate::model::msg::*;
use crate::model::refparse::{refparse, Decoded, STRICT};
use crate::mon::runaway_budget;
use crate::prng::{hash_bytes, Rng};

fn sec_of(s: usize) -> Section {
    [Section::Answer, Section::NameServers, Section::Additional][s]
}

/// Compare every accessor of a positioned response cursor with the model record.
fn check_rr<I: DNSIterable + TypedIterable + RdataIterable>(
    it: &I,
    rec: &Record,
    lay: &crate::model::refparse::RecLayout,
    sec: Section,
    x: &[u8],
    n: &mut u64,
) -> Result<(), String> {
    macro_rules! eqf {
        ($what:expr, $got:expr, $want:expr) => {{
            *n += 1;
            let (g, w) = ($got, $want);
            if g != w {
                return Err(format!("{}: got {:?} want {:?}", $what, g, w));
            }
        }};
    }
    eqf!("offset", it.offset(), Some(lay.off));
    eqf!("offset_next", it.offset_next(), lay.end);
    eqf!("name_slice", it.name_slice(), &x[lay.off..lay.name_end]);
    eqf!("rdata_slice", it.rdata_slice(), &x[lay.name_end..]);
    eqf!("name", it.name(), rec.name.to_text_lower());
    let mut raw = vec![0xaa];
    let l = it.copy_raw_name(&mut raw);
    eqf!("copy_raw_name.len", l, rec.name.wire_len());
    eqf!("copy_raw_name", &raw[1..], &rec.name.to_wire()[..]);
    eqf!("rr_type", it.rr_type(), rec.rtype);
    eqf!("rr_class", it.rr_class(), rec.class);
    eqf!("rr_ttl", it.rr_ttl(), rec.ttl);
    let rdlen = lay.end - lay.name_end - 10;
    eqf!("rr_rdlen", it.rr_rdlen(), rdlen);
    let want_ip: Option<IpAddr> = match &rec.rdata {
        RData::A(a) => Some(IpAddr::from(*a)),
        RData::Aaaa(a) => Some(IpAddr::from(*a)),
        _ => None,
    };
    eqf!("rr_ip", it.rr_ip().ok(), want_ip);
    match it.rr_rd() {
        Ok(RawRRData::IpAddr(ip)) => eqf!("rr_rd(ip)", Some(ip), want_ip),
        Ok(RawRRData::Data(d)) => {
            eqf!("rr_rd(kind)", want_ip.is_none(), true);
            eqf!("rr_rd(data)", d, &x[lay.name_end + 10..lay.end]);
        }
        Err(e) => return Err(format!("rr_rd: error {}", e)),
    }
    match it.current_section() {
        Ok(s) => eqf!("current_section", s, sec),
        Err(e) => return Err(format!("current_section: error {}", e)),
    }
    Ok(())
}

/// The complete read-back of one accepted packet. Returns the number of accessor comparisons.
pub fn read_back(pp: &mut ParsedPacket, d: &Decoded, x: &[u8]) -> Result<u64, String> {
    let mut n = 0u64;
    // question
    {
        let mut it = pp.into_iter_question();
        for (q, lay) in d.msg.question.iter().zip(d.layout.question.iter()) {
            let item = it.ok_or("question: iterator ended early")?;
            n += 6;
            if item.offset() != Some(lay.off) || item.offset_next() != lay.end {
                return Err(format!("question: offsets {:?}/{} want {}/{}", item.offset(), item.offset_next(), lay.off, lay.end));
            }
            if item.name() != q.name.to_text_lower() {
                return Err(format!("question: name {:?} want {:?}", item.name(), q.name.to_text_lower()));
            }
            let mut raw = vec![];
            if item.copy_raw_name(&mut raw) != q.name.wire_len() || raw != q.name.to_wire() {
                return Err("question: copy_raw_name".into());
            }
            if item.rr_type() != q.qtype || item.rr_class() != q.qclass {
                return Err("question: type/class".into());
            }
            match item.current_section() {
                Ok(Section::Question) => {}
                o => return Err(format!("question: current_section {:?}", o.map_err(|e| e.to_string()))),
            }
            it = item.next();
        }
        if it.is_some() {
            return Err("question: iterator yields more records than the packet holds".into());
        }
    }
    // answer, authority: plain walks; additional: three kinds of walk
    for s in 0..3 {
        let recs: Vec<(&Record, &crate::model::refparse::RecLayout)> =
            d.msg.sec[s].iter().zip(d.layout.sec[s].iter()).collect();
        // (a) next(): OPT skipped
        {
            let mut it = match s {
                0 => pp.into_iter_answer(),
                1 => pp.into_iter_nameservers(),
                _ => pp.into_iter_additional(),
            };
            for (rec, lay) in recs.iter().filter(|(r, _)| !r.is_opt()) {
                let item = it.ok_or_else(|| format!("section {}: iterator ended before {:?}", s, rec.name))?;
                check_rr(&item, rec, lay, sec_of(s), x, &mut n).map_err(|e| format!("section {} skip-opt walk: {}", s, e))?;
                it = item.next();
            }
            if let Some(extra) = it {
                return Err(format!("section {}: skip-opt walk yields an extra record at {:?}", s, extra.offset()));
            }
        }
        if s == 2 {
            // (b) including OPT
            let mut it = pp.into_iter_additional_including_opt();
            for (rec, lay) in recs.iter() {
                let item = it.ok_or_else(|| format!("additional incl. OPT: iterator ended before {:?}", rec.name))?;
                check_rr(&item, rec, lay, Section::Additional, x, &mut n).map_err(|e| format!("additional incl-opt walk: {}", e))?;
                it = item.next_including_opt();
            }
            if it.is_some() {
                return Err("additional incl. OPT: extra record".into());
            }
        }
    }
    // EDNS options
    {
        let mut it = pp.into_iter_edns();
        if let Some(o) = &d.layout.opt {
            let opts = match &d.msg.sec[SEC_AR][o.index].rdata {
                RData::Opt(v) => v.clone(),
                _ => unreachable!(),
            };
            for (k, (off, (code, data))) in o.option_offs.iter().zip(opts.iter()).enumerate() {
                let item = it.ok_or_else(|| format!("edns: iterator ended before option {}", k))?;
                n += 4;
                if item.offset() != Some(*off) || item.offset_next() != off + 4 + data.len() {
                    return Err(format!("edns option {}: offsets {:?}/{} want {}/{}", k, item.offset(), item.offset_next(), off, off + 4 + data.len()));
                }
                let rd = item.rdata_slice();
                if rd[0..2] != code.to_be_bytes() || &rd[4..4 + data.len()] != &data[..] {
                    return Err(format!("edns option {}: content", k));
                }
                it = item.next();
            }
        }
        if it.is_some() {
            return Err("edns: iterator yields more options than the OPT record holds".into());
        }
    }
    Ok(n)
}

pub fn one(ctx: &mut Ctx, x: &[u8], shape: &str) {
    ctx.evaluations += 1;
    let d = match refparse(x, STRICT) {
        Ok(d) => d,
        Err(_) => {
            ctx.count("not_wellformed");
            return;
        }
    };
    let mut pp = match lib_parse(x) {
        Ok(Ok(pp)) => pp,
        _ => {
            ctx.count("not_accepted"); // C01/C02's business
            return;
        }
    };
    ctx.count("accepted");
    let h0 = hash_bytes(x);
    let r = guarded(runaway_budget(x.len()) * 8, || {
        let r = read_back(&mut pp, &d, x);
        (r, hash_bytes(pp.packet()))
    });
    match r {
        Err(p) => {
            let kind = if p.is_budget() { "non-termination" } else { "panic" };
            ctx.violation("C03", format!("read-back|{}|{}", kind, p.class()), format!("shape {}: {}", shape, p.msg), x);
        }
        Ok((Err(e), _)) => {
            // mismatch class: text up to the first ':' pair, numbers stripped
            let cls: String = e.split(':').take(2).collect::<Vec<_>>().join(":");
            let cls: String = cls.chars().filter(|c| !c.is_ascii_digit()).collect();
            ctx.violation("C03", format!("read-back|mismatch|{}", cls), format!("shape {}: {}", shape, e), x);
        }
        Ok((Ok(n), h1)) => {
            ctx.count_n("accessor_comparisons", n);
            if h1 != h0 {
                ctx.violation("C03", "read-back|bytes-changed".into(), "reading altered the packet".into(), x);
            }
        }
    }
}

pub fn shape_of(d: &Decoded, opt: OptPos) -> String {
    let mut types: Vec<u16> = d.msg.sec.iter().flatten().map(|r| r.rtype).collect();
    types.sort();
    types.dedup();
    format!(
        "an{} ns{} ar{} opt{:?} ch{} hdr{} t{:?}",
        d.msg.sec[0].len().min(3),
        d.msg.sec[1].len().min(3),
        d.msg.sec[2].len().min(3),
        opt,
        d.layout.max_chain.min(17),
        d.layout.ptr_into_header,
        types
    )
}

pub fn run(ctx: &mut Ctx) {
    let n = ctx.scaled(if ctx.tier == "thorough" { 12_000_000 } else { 480_000 });
    for case in ctx.phase("valid", n) {
        if case % 2048 == 0 && ctx.out_of_time() {
            break;
        }
        ctx.begin_case(case);
        let mut rng = Rng::for_case(ctx.seed, "c03", 0, case);
        let cfg = Cfg {
            opt: Some(*rng.pick(&[OptPos::None, OptPos::First, OptPos::Middle, OptPos::Last, OptPos::Last])),
            max_records: if rng.chance(1, 20) { 60 } else { 12 },
            ..Default::default()
        };
        let v = gen_valid(&mut rng, &cfg);
        match refparse(&v.bytes, STRICT) {
            Ok(d) if d.msg == v.msg => {
                let sh = shape_of(&d, v.opt_pos);
                ctx.cover(&sh);
                ctx.count(&format!("opt:{:?}", v.opt_pos));
                if v.header_target {
                    ctx.count("pointer_into_header");
                }
                if v.max_chain >= 8 {
                    ctx.count("chain>=8");
                }
                one(ctx, &v.bytes, &sh);
                ctx.sample(|| format!("{} :: {}", sh, short(&v.bytes)));
            }
            _ => {
                ctx.count("harness_error");
                ctx.notes.push(format!("harness: G-valid packet not decoded to its own message: {}", short(&v.bytes)));
            }
        }
    }
    // G-big: hundreds of records, names first occurring beyond offset 16383 (not addressable by a pointer),
    // pointers from far records back into the first 16 KiB
    let nb = ctx.scaled(if ctx.tier == "thorough" { 40_000 } else { 1_600 });
    for case in ctx.phase("big", nb) {
        if case % 64 == 0 && ctx.out_of_time() {
            break;
        }
        ctx.begin_case(case);
        let mut rng = Rng::for_case(ctx.seed, "c03-big", 0, case);
        let cfg = Cfg { max_records: 400, compress_eighths: 6, ..Default::default() };
        let mut v = gen_valid(&mut rng, &cfg);
        for _ in 0..6 {
            if v.bytes.len() > 20_000 {
                break;
            }
            v = gen_valid(&mut rng, &cfg);
        }
        if let Ok(d) = refparse(&v.bytes, STRICT) {
            if d.msg == v.msg {
                if v.bytes.len() > 16_383 {
                    ctx.count("packets_beyond_16383");
                }
                ctx.cover(&format!("big|{}|{}", v.bytes.len() / 8192, v.msg.n_records() / 50));
                one(ctx, &v.bytes, "big");
            }
        }
    }
    // accepted mutants of valid packets (accepted by both): layouts the generator would not draw
    let m = ctx.scaled(if ctx.tier == "thorough" { 6_000_000 } else { 300_000 });
    for case in ctx.phase("accepted-mutants", m) {
        if case % 2048 == 0 && ctx.out_of_time() {
            break;
        }
        ctx.begin_case(case);
        let mut rng = Rng::for_case(ctx.seed, "parse", 0, case);
        let inp = crate::gen::hostile::parse_input(&mut rng, case);
        if inp.expect == Some(true) || inp.family.starts_with("mut-") {
            if let Ok(d) = refparse(&inp.bytes, STRICT) {
                let sh = shape_of(&d, OptPos::None);
                ctx.cover(&format!("m|{}|{}", inp.family, sh));
                one(ctx, &inp.bytes, inp.family);
            }
        }
    }
}

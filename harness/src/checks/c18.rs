//! C18 — validation work is linear in the packet size.
//!
//! Observation: the cfg-guarded step counter's delta across DNSSector::parse.
//! Oracle 1: steps <= 64*len + 4096 on every input. Oracle 2 (scale-free):
//! for each adversarial family the fitted exponent of steps vs. len is <= 1.15.

use super::*;
use crate::gen::hostile::{parse_input, Asm};
use crate::model::msg::*;
use crate::prng::Rng;

// three times today's densest case (20.6 steps per byte: 14-byte NS records naming twice through 16 hops and
// 127 labels), so that a legitimate change of the constant factor (validating a name twice, a linear pre-scan)
// stays silent while a defeated per-name limit (hundreds of steps per byte) does not
pub const SLOPE: u64 = 64;
pub const CONST: u64 = 4096;

/// Bytes the parser may request from the allocator: a fixed multiple of the input plus a constant
/// (today it allocates nothing but the error value).
pub const ALLOC_SLOPE: u64 = 4;
pub const ALLOC_CONST: u64 = 16_384;

#[cfg(dnssector_verif)]
fn measure(x: &[u8]) -> Result<(bool, u64, [u64; dnssector::verif::N_SITES], u64), PanicInfo> {
    use dnssector::DNSSector;
    let v = x.to_vec();
    dnssector::verif::reset();
    let a0 = crate::mon::allocated_bytes();
    let r = guarded(parse_budget(x.len()), move || DNSSector::new(v).and_then(|ds| ds.parse()).is_ok())?;
    let allocated = crate::mon::allocated_bytes() - a0;
    let snap = dnssector::verif::snapshot();
    Ok((r, snap.iter().sum(), snap, allocated))
}

/// The longest admissible pointer chain: 127 one-byte labels spread over 16
/// segments linked by strictly descending pointers, placed inside the rdata
/// of an opaque record. Returns (asm positioned after that record, offset of
/// the highest segment).
fn chain_base(rng: &mut Rng, hops: usize, labels: usize) -> (Asm, usize) {
    let mut a = Asm::header(7, 0x8180, 1, 1, 0, 0);
    a.question_q();
    a.ptr(12).rrfix(T_TXT, 1, 0);
    let rdlen_at = a.pos() - 2;
    let rd = a.pos();
    let per = (labels / hops).max(1);
    let mut used = 0;
    let mut prev_start: Option<usize> = None;
    let mut top = rd;
    for seg in 0..hops {
        let start = a.pos();
        let mut k = per;
        if seg == hops - 1 {
            k = labels - used;
        }
        for _ in 0..k {
            a.label(&[*rng.pick(b"abcdefgh")]);
        }
        used += k;
        match prev_start {
            None => {
                a.root();
            }
            Some(p) => {
                a.ptr(p);
            }
        }
        prev_start = Some(start);
        top = start;
    }
    let rdlen = a.pos() - rd;
    a.b[rdlen_at..rdlen_at + 2].copy_from_slice(&(rdlen as u16).to_be_bytes());
    (a, top)
}

pub const FAMILIES: &[&str] = &[
    "chain16-ns",
    "chain16-soa",
    "shared-maxname-ns",
    "shared-maxname-mx",
    "opt-dense-options",
    "chain-into-header",
    "literal-1byte-labels",
    "dname-literal",
    // hostile: structures beyond the per-name limits hidden in data the parser does not validate,
    // referenced by many records (rejected early today; a lifted limit makes them quadratic)
    "hostile-long-pointer-chain",
    "hostile-long-label-run",
    "hostile-pointer-ladder-with-labels",
    "hostile-overlong-chain-soa",
    "hostile-label-then-16-pointers-ladder",
    "hostile-long-label-run-odd-steps",
    "hostile-dname-into-pointer-chain",
    "hostile-lying-count-beyond-65536",
];

/// Families >= this index are expected to be rejected.
pub const FIRST_HOSTILE: usize = 8;

/// Build a member of an adversarial family of roughly `target_len` bytes.
pub fn adversarial(rng: &mut Rng, fam: usize, target_len: usize) -> Vec<u8> {
    match fam {
        0 | 1 => {
            // hops = 15 inner segments + the record's own pointer = 16 indirections
            let (mut a, top) = chain_base(rng, 16, 127);
            let mut n = 1u16;
            while a.pos() + 40 < target_len && n < 65000 {
                if fam == 0 {
                    // owner: 15 pointers would be followed from `top`; we point at the segment
                    // below the top so that owner pointer + 15 links = 16
                    a.ptr(top).rrfix(T_NS, 1, 2).ptr(top);
                } else {
                    a.ptr(top).rrfix(T_SOA, 1, 24).ptr(top).ptr(top).raw(&[0u8; 20]);
                }
                n += 1;
            }
            a.b[6..8].copy_from_slice(&n.to_be_bytes());
            a.done()
        }
        2 | 3 => {
            // one literal maximal name (127 one-byte labels), every record points to it twice
            let mut a = Asm::header(7, 0x8180, 1, 1, 0, 0);
            a.question_q();
            let big = a.pos();
            for _ in 0..127 {
                a.label(&[*rng.pick(b"xyz")]);
            }
            a.root().rrfix(T_A, 1, 4).raw(&[1, 2, 3, 4]);
            let mut n = 1u16;
            while a.pos() + 20 < target_len && n < 65000 {
                if fam == 2 {
                    a.ptr(big).rrfix(T_NS, 1, 2).ptr(big);
                } else {
                    a.ptr(big).rrfix(T_MX, 1, 4).u16(1).ptr(big);
                }
                n += 1;
            }
            a.b[6..8].copy_from_slice(&n.to_be_bytes());
            a.done()
        }
        4 => {
            // OPT full of zero-length options
            let mut a = Asm::header(7, 0x8180, 1, 0, 0, 1);
            a.question_q();
            let nopt = ((target_len.saturating_sub(40)) / 4).min(16000);
            a.root().u16(T_OPT).u16(4096).u32(0).u16((nopt * 4) as u16);
            for i in 0..nopt {
                a.u16(i as u16).u16(0);
            }
            a.done()
        }
        5 => {
            // names resolved through the header: id = [1,'h'], flags hi = 0 (a query: additional only)
            let mut a = Asm::header(0x0168, 0x0000, 1, 0, 0, 0);
            a.ptr(0).u16(1).u16(1);
            let mut n = 0u16;
            while a.pos() + 20 < target_len && n < 65000 {
                a.label(b"a").ptr(0).rrfix(T_NS, 1, 2).ptr(0);
                n += 1;
            }
            a.b[10..12].copy_from_slice(&n.to_be_bytes());
            a.done()
        }
        6 => {
            // literal names made of one-byte labels everywhere (no pointers)
            let mut a = Asm::header(7, 0x8180, 1, 0, 0, 0);
            a.question_q();
            let mut n = 0u16;
            while a.pos() + 600 < target_len && n < 65000 {
                for _ in 0..127 {
                    a.label(b"l");
                }
                a.root().rrfix(T_CNAME, 1, 255);
                for _ in 0..127 {
                    a.label(b"m");
                }
                a.root();
                n += 1;
            }
            a.b[6..8].copy_from_slice(&n.to_be_bytes());
            a.done()
        }
        15 => {
            // ANCOUNT = 65535 although far fewer records are there, every record naming through the longest
            // admissible chain, and (for the largest size) a compressed owner name placed just above offset 65536
            // such that "its end, in 16 bits" is the end of the first record's owner name: a cursor that wraps
            // there would go round and round until the count is used up. Refused at the end of the data today.
            let (mut a, top) = chain_base(rng, 16, 127);
            let first_owner_end = 12 + 7 + 2; // header, "q." + type/class, the chain record's owner pointer
            let mut n = 1u16;
            if target_len >= 60_000 {
                let at = 65536 + first_owner_end - 2;
                while a.pos() + 16 + 13 <= at {
                    a.ptr(top).rrfix(T_A, 1, 4).raw(&[1, 2, 3, 4]);
                    n += 1;
                }
                let left = at - a.pos();
                if left >= 13 {
                    a.ptr(12).rrfix(T_TXT, 1, (left - 12) as u16).raw(&vec![0x3fu8; left - 12]);
                    n += 1;
                }
                for _ in 0..3 {
                    a.ptr(top).rrfix(T_A, 1, 4).raw(&[1, 2, 3, 4]);
                    n += 1;
                }
            } else {
                while a.pos() + 40 < target_len {
                    a.ptr(top).rrfix(T_A, 1, 4).raw(&[1, 2, 3, 4]);
                    n += 1;
                }
            }
            let _ = n;
            a.b[6..8].copy_from_slice(&65535u16.to_be_bytes());
            a.done()
        }
        8 | 9 | 10 | 11 | 12 | 13 | 14 => {
            // a TXT record whose rdata hides: (8) a chain of k pointers each pointing at the previous one,
            // (9) a run of k one-byte labels, (10) k segments "label + pointer to the previous segment",
            // (11) like 8 but referenced from SOA records (two names each)
            let budget = target_len.min(0x3f00);
            let mut a = Asm::header(7, 0x8180, 1, 1, 0, 0);
            a.question_q();
            let hidden = (budget / 3).min(9000);
            a.ptr(12).rrfix(T_TXT, 1, 0);
            let rdlen_at = a.pos() - 2;
            let rd = a.pos();
            // anchor: a tiny valid name the structure finally resolves to
            a.label(b"z").root();
            let mut head = rd;
            match fam {
                8 | 11 | 14 => {
                    let k = hidden / 2;
                    for _ in 0..k {
                        let here = a.pos();
                        a.ptr(head);
                        head = here;
                    }
                }
                9 | 13 => {
                    // labels must precede their terminator: emit the run, then jump to the anchor.
                    // (13: labels of 2, 4 or 6 bytes, so that the running length steps over 255/256 without
                    // landing on it: 3-, 5- and 7-byte steps)
                    let l = if fam == 13 { *rng.pick(&[2usize, 4, 6]) } else { 1 };
                    let k = hidden / (l + 1);
                    head = a.pos();
                    for _ in 0..k {
                        let lab: Vec<u8> = (0..l).map(|_| *rng.pick(b"abcdefgh")).collect();
                        a.label(&lab);
                    }
                    a.ptr(rd);
                }
                10 => {
                    let k = hidden / 4;
                    for _ in 0..k {
                        let here = a.pos();
                        a.label(&[*rng.pick(b"abcdefgh")]).ptr(head);
                        head = here;
                    }
                }
                _ => {
                    // rungs of one label followed by 16 chained pointers: a budget that only limits
                    // *consecutive* pointers never fires
                    let rungs = (hidden / 36).min(126);
                    for _ in 0..rungs {
                        for _ in 0..15 {
                            let here = a.pos();
                            a.ptr(head);
                            head = here;
                        }
                        let here = a.pos();
                        a.label(&[*rng.pick(b"abcdefgh")]).ptr(head);
                        head = here;
                    }
                }
            }
            let rdlen = a.pos() - rd;
            a.b[rdlen_at..rdlen_at + 2].copy_from_slice(&(rdlen as u16).to_be_bytes());
            let mut n = 1u16;
            while a.pos() + 40 < target_len && n < 65000 && head < 0x3fff {
                if fam == 11 {
                    a.ptr(head).rrfix(T_SOA, 1, 24).ptr(head).ptr(head).raw(&[0u8; 20]);
                } else if fam == 14 {
                    // DNAME targets must be pointer-free: refused at the first record today
                    a.ptr(12).rrfix(T_DNAME, 1, 2).ptr(head);
                } else {
                    a.ptr(head).rrfix(T_NS, 1, 2).ptr(head);
                }
                n += 1;
            }
            a.b[6..8].copy_from_slice(&n.to_be_bytes());
            a.done()
        }
        _ => {
            let mut a = Asm::header(7, 0x8180, 1, 0, 0, 0);
            a.question_q();
            let mut n = 0u16;
            while a.pos() + 300 < target_len && n < 65000 {
                a.ptr(12).rrfix(T_DNAME, 1, 255);
                for _ in 0..127 {
                    a.label(&[0]);
                }
                a.root();
                n += 1;
            }
            a.b[6..8].copy_from_slice(&n.to_be_bytes());
            a.done()
        }
    }
}

#[cfg(not(dnssector_verif))]
pub fn run(ctx: &mut Ctx) {
    ctx.notes.push("built without --cfg dnssector_verif: no step counter".into());
    ctx.count("harness_error");
}

#[cfg(dnssector_verif)]
fn one(ctx: &mut Ctx, x: &[u8], family: &str) -> Option<u64> {
    ctx.evaluations += 1;
    match measure(x) {
        Err(p) => {
            if p.is_budget() {
                ctx.violation(
                    "C18",
                    "step-budget-exceeded".into(),
                    format!("family {}: more than 64*len+65536 steps on {} bytes", family, x.len()),
                    x,
                );
            } else {
                ctx.count("no_measure_panic");
            }
            None
        }
        Ok((ok, steps, snap, allocated)) => {
            ctx.maximum("max_allocated_bytes", allocated);
            if allocated > 0 {
                ctx.count("allocation_observed");
            }
            if allocated > ALLOC_SLOPE * x.len() as u64 + ALLOC_CONST {
                ctx.violation(
                    "C18",
                    format!("allocation-bound-exceeded|{}", family),
                    format!("parsing {} bytes requested {} bytes from the allocator (> {}*len+{}): work that grows with records x packet size", x.len(), allocated, ALLOC_SLOPE, ALLOC_CONST),
                    x,
                );
            }
            let bound = SLOPE * x.len() as u64 + CONST;
            ctx.count(if ok { "accepted" } else { "rejected" });
            ctx.count_n("steps_total", steps);
            for (i, s) in snap.iter().enumerate() {
                if *s > 0 {
                    ctx.count_n(&format!("site{}", i), *s);
                }
            }
            if x.len() >= 64 {
                ctx.maximum("max_steps_per_byte_x1000", steps * 1000 / x.len() as u64);
            }
            ctx.maximum("max_steps", steps);
            let ratio_bucket = if x.is_empty() { 0 } else { (steps * 4 / x.len().max(1) as u64).min(200) };
            ctx.cover(&format!("{}|{}|r{}|l{}", family, ok, ratio_bucket, x.len().next_power_of_two()));
            if steps > bound {
                ctx.violation(
                    "C18",
                    format!("bound-exceeded|{}", family),
                    format!("{} steps on {} bytes > {}*len+{} (sites {:?})", steps, x.len(), SLOPE, CONST, snap),
                    x,
                );
            }
            Some(steps)
        }
    }
}

#[cfg(dnssector_verif)]
pub fn one_pub(ctx: &mut Ctx, x: &[u8], family: &str) {
    one(ctx, x, family);
}

#[cfg(dnssector_verif)]
pub fn run(ctx: &mut Ctx) {
    // 1. adversarial families across sizes, with exponent fit (done by shard 0 only: deterministic and cheap)
    let sizes: &[usize] = &[1024, 2048, 4096, 8192, 16384, 32768, 65000];
    let fams = ctx.phase("adv-sizes", FAMILIES.len() as u64);
    for (fi, fam) in FAMILIES.iter().enumerate() {
        if !fams.contains(&(fi as u64)) {
            continue;
        }
        let mut pts: Vec<(f64, f64)> = vec![];
        for &sz in sizes {
            ctx.begin_case(fi as u64);
            let mut rng = Rng::for_case(ctx.seed, "c18-adv", fi as u64, sz as u64);
            let x = adversarial(&mut rng, fi, sz);
            if let Some(steps) = one(ctx, &x, fam) {
                // a benign family must be well-formed by the reference statement of the policy (otherwise my
                // construction is wrong and it measures an early exit: harness error). Whether *this tree's*
                // parser accepts it is C02's business: if it does not, the family is still measured (a
                // rejection path is validation work too) and the fact is noted.
                // Hostile families are rejected today and only have to stay under the bound.
                if fi >= FIRST_HOSTILE {
                    ctx.count(&format!("adv_hostile:{}", fam));
                    pts.push(((x.len() as f64).ln(), (steps.max(1) as f64).ln()));
                } else if lib_parse(&x).map(|r| r.is_ok()).unwrap_or(false) {
                    ctx.count(&format!("adv_accepted:{}", fam));
                    pts.push(((x.len() as f64).ln(), (steps.max(1) as f64).ln()));
                } else if crate::model::refparse::accepts(&x) {
                    ctx.count(&format!("adv_wellformed_but_rejected_by_this_tree:{}", fam));
                    pts.push(((x.len() as f64).ln(), (steps.max(1) as f64).ln()));
                } else {
                    ctx.count("harness_error");
                    ctx.notes.push(format!("harness: adversarial family {} size {} is ill-formed by the reference policy", fam, sz));
                }
                ctx.sample(|| format!("{} len={} steps={} ratio={:.2}", fam, x.len(), steps, steps as f64 / x.len() as f64));
            }
        }
        if pts.len() >= 4 {
            let n = pts.len() as f64;
            let (sx, sy) = pts.iter().fold((0.0, 0.0), |a, p| (a.0 + p.0, a.1 + p.1));
            let (mx, my) = (sx / n, sy / n);
            let num: f64 = pts.iter().map(|p| (p.0 - mx) * (p.1 - my)).sum();
            let den: f64 = pts.iter().map(|p| (p.0 - mx) * (p.0 - mx)).sum();
            let slope = num / den;
            ctx.maximum("max_fitted_exponent_x1000", (slope * 1000.0).max(0.0) as u64);
            ctx.count("exponent_fits");
            if slope > 1.15 {
                ctx.violation(
                    "C18",
                    format!("superlinear|{}", fam),
                    format!("fitted exponent {:.3} of steps vs len over {:?}", slope, sizes),
                    &[],
                );
            }
        }
    }
    // 2. random sizes of the adversarial families
    let m = ctx.scaled(if ctx.tier == "thorough" { 400_000 } else { 6_000 });
    for case in ctx.phase("adv-random", m) {
        if case % 256 == 0 && ctx.out_of_time() {
            break;
        }
        ctx.begin_case(case);
        let mut rng = Rng::for_case(ctx.seed, "c18-rand", 0, case);
        let fi = rng.below(FAMILIES.len());
        let sz = match rng.below(4) {
            0 => rng.range(64, 600),
            1 => rng.range(600, 5000),
            2 => rng.range(5000, 20000),
            _ => rng.range(20000, 65000),
        };
        let mut x = adversarial(&mut rng, fi, sz);
        // damaged variants must stay under the bound too
        if rng.chance(1, 3) && x.len() > 40 {
            for _ in 0..rng.range(1, 3) {
                let o = rng.range(12, x.len() - 1);
                x[o] = rng.u8();
            }
        }
        one(ctx, &x, FAMILIES[fi]);
    }
    // 3. the ordinary and hostile inputs of the parse workload
    let n = ctx.scaled(if ctx.tier == "thorough" { 30_000_000 } else { 1_200_000 });
    for case in ctx.phase("parse", n) {
        if case % 4096 == 0 && ctx.out_of_time() {
            break;
        }
        ctx.begin_case(case);
        let mut rng = Rng::for_case(ctx.seed, "parse", 0, case);
        let inp = parse_input(&mut rng, case);
        one(ctx, &inp.bytes, inp.family);
    }
}

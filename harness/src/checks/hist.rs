//! Operation histories over the public mutation API, monitored after every
//! step (shared by C08, C09 and C10).
//!
//! C08: the object's view == what the bytes say (and a fresh parse).
//! C09: decode(bytes) == abstract model after the same operation.
//! C10: an operation that returns Err changed nothing; size limit holds.

use std::net::IpAddr;

use dnssector::synth::r#gen::{self, RR};
use dnssector::*;

use super::c07::model_rename;
use super::*;
use crate::gen::valid::{gen_label, gen_valid, name_of_wire_len, Cfg, OptPos};
use crate::model::msg::*;
use crate::model::refparse::{refparse, Decoded, Relax, STRICT};
use crate::model::text::{damaged_text, name_to_text, text_name, valid_text};
use crate::mon::runaway_budget;
use crate::prng::Rng;

pub const RELAXED: Relax = Relax { no_question: true, query_with_records: true };

#[derive(Clone, Copy, PartialEq, Eq, Debug)]
pub enum Prop {
    C08,
    C09,
    C10,
}

impl Prop {
    pub fn id(&self) -> &'static str {
        match self {
            Prop::C08 => "C08",
            Prop::C09 => "C09",
            Prop::C10 => "C10",
        }
    }
}

pub struct Finding {
    pub prop: Prop,
    pub class: String,
    pub detail: String,
}

fn f(prop: Prop, class: impl Into<String>, detail: impl Into<String>) -> Finding {
    Finding { prop, class: class.into(), detail: detail.into() }
}

/// Is this header one the parser can accept at all? (see DESIGN.md, C08 scoping)
pub fn strict_state(b: &[u8]) -> bool {
    if b.len() < 12 {
        return false;
    }
    let qd = u16::from_be_bytes([b[4], b[5]]);
    let an = u16::from_be_bytes([b[6], b[7]]);
    let ns = u16::from_be_bytes([b[8], b[9]]);
    qd == 1 && (b[2] & 0x80 != 0 || (an == 0 && ns == 0))
}

/// C08: compare the object's own view with what the bytes say.
pub fn check_view(pp: &ParsedPacket) -> Result<Decoded, Finding> {
    let bytes = match pp.packet.as_ref() {
        Some(b) => b,
        None => return Err(f(Prop::C08, "packet-lost", "the object holds no packet")),
    };
    let strict = strict_state(bytes);
    let d = match refparse(bytes, if strict { STRICT } else { RELAXED }) {
        Ok(d) => d,
        Err(r) => {
            return Err(f(
                Prop::C08,
                format!("bytes-rejected|{}{}", r.clause.as_str(), r.name_err.map(|e| format!("/{}", e.as_str())).unwrap_or_default()),
                format!("the object's bytes are not a well-formed packet (offset {}): {}", r.at, short(bytes)),
            ))
        }
    };
    let mism = |what: &str, got: String, want: String| f(Prop::C08, format!("view|{}", what), format!("{}: object says {} but the bytes say {} :: {}", what, got, want, short(bytes)));
    macro_rules! cmp {
        ($what:expr, $got:expr, $want:expr) => {{
            let (g, w) = ($got, $want);
            if g != w {
                return Err(mism($what, format!("{:?}", g), format!("{:?}", w)));
            }
        }};
    }
    if !strict {
        // states the builder API produces on purpose but the parser cannot represent: the reference decoding
        // (relaxed on exactly those two clauses) stands in for the fresh parse
        cmp!("offset_question", pp.offset_question, d.layout.question.first().map(|q| q.off));
        cmp!("offset_answers", pp.offset_answers, d.layout.sec_start(0));
        cmp!("offset_nameservers", pp.offset_nameservers, d.layout.sec_start(1));
        cmp!("offset_additional", pp.offset_additional, d.layout.sec_start(2));
        let opt = d.msg.opt();
        cmp!("offset_edns", pp.offset_edns, d.layout.opt.as_ref().map(|o| o.options_start));
        cmp!("edns_count", pp.edns_count as usize, d.layout.opt.as_ref().map(|o| o.option_offs.len()).unwrap_or(0));
        cmp!("edns_version", pp.edns_version, opt.map(|o| ((o.ttl >> 16) & 0xff) as u8));
        cmp!("ext_rcode", pp.ext_rcode, opt.map(|o| (o.ttl >> 24) as u8));
        cmp!("ext_flags", pp.ext_flags, opt.map(|o| (o.ttl & 0xffff) as u16));
    }
    if !pp.maybe_compressed && d.layout.pointers > 0 {
        return Err(f(Prop::C08, "view|maybe_compressed", format!("maybe_compressed is false but the bytes hold {} pointer(s): {}", d.layout.pointers, short(bytes))));
    }
    match (&pp.cached, d.msg.question.first()) {
        (Some(c), Some(q)) => {
            if c.0 != q.name.to_wire() || c.1 != q.qtype || c.2 != q.qclass {
                return Err(f(Prop::C08, "view|cached-question-stale", format!("cached {:?} but the bytes hold {:?}", Name::from_wire(&c.0).map(|n| n.0), q)));
            }
        }
        (Some(_), None) => return Err(f(Prop::C08, "view|cached-question-stale", "a question is cached but the packet has none")),
        _ => {}
    }
    // and against the real parser, when the state is one it can represent
    if strict {
        match lib_parse(bytes) {
            Ok(Ok(fresh)) => {
                cmp!("fresh.offset_question", pp.offset_question, fresh.offset_question);
                cmp!("fresh.offset_answers", pp.offset_answers, fresh.offset_answers);
                cmp!("fresh.offset_nameservers", pp.offset_nameservers, fresh.offset_nameservers);
                cmp!("fresh.offset_additional", pp.offset_additional, fresh.offset_additional);
                cmp!("fresh.offset_edns", pp.offset_edns, fresh.offset_edns);
                cmp!("fresh.edns_count", pp.edns_count, fresh.edns_count);
                cmp!("fresh.edns_version", pp.edns_version, fresh.edns_version);
                cmp!("fresh.ext_rcode", pp.ext_rcode, fresh.ext_rcode);
                cmp!("fresh.ext_flags", pp.ext_flags, fresh.ext_flags);
            }
            _ => return Err(f(Prop::C08, "bytes-rejected-by-parser", format!("reference accepts, parser does not: {}", short(bytes)))),
        }
    }
    Ok(d)
}

/// The question getters (need &mut): must agree with the bytes.
pub fn check_question_getters(pp: &mut ParsedPacket, d: &Decoded, order: usize) -> Result<(), Finding> {
    let want = d.msg.question.first().map(|q| (q.name.to_wire(), q.name.to_text_lower(), q.qtype, q.qclass));
    let calls: &[usize] = match order % 4 {
        0 => &[0, 1, 2],
        1 => &[2, 1, 0],
        2 => &[1, 0, 2],
        _ => &[2, 0],
    };
    for &c in calls {
        let ok = match c {
            0 => pp.question_raw0().map(|(a, b, c)| (a.to_vec(), b, c)) == want.as_ref().map(|w| (w.0.clone(), w.2, w.3)),
            1 => pp.question() == want.as_ref().map(|w| (w.1.clone(), w.2, w.3)),
            _ => pp.qtype_qclass() == want.as_ref().map(|w| (w.2, w.3)),
        };
        if !ok {
            return Err(f(Prop::C08, "view|question-getter", format!("question getter {} disagrees with the bytes; bytes hold {:?}", c, d.msg.question.first())));
        }
    }
    Ok(())
}

// ---------------------------------------------------------------------------

#[derive(Clone, Copy, PartialEq, Eq, Debug)]
pub enum IterKind {
    Question,
    Answer,
    NameServers,
    Additional,
    AdditionalInclOpt,
    Edns,
}

enum Cur<'a> {
    Q(QuestionIterator<'a>),
    R(ResponseIterator<'a>, bool),
    E(EdnsIterator<'a>),
}

macro_rules! cur {
    ($s:expr, $it:ident => $e:expr) => {
        match $s {
            Cur::Q($it) => $e,
            Cur::R($it, _) => $e,
            Cur::E($it) => $e,
        }
    };
}

impl<'a> Cur<'a> {
    fn open(pp: &'a mut ParsedPacket, k: IterKind) -> Option<Cur<'a>> {
        match k {
            IterKind::Question => pp.into_iter_question().map(Cur::Q),
            IterKind::Answer => pp.into_iter_answer().map(|i| Cur::R(i, false)),
            IterKind::NameServers => pp.into_iter_nameservers().map(|i| Cur::R(i, false)),
            IterKind::Additional => pp.into_iter_additional().map(|i| Cur::R(i, false)),
            IterKind::AdditionalInclOpt => pp.into_iter_additional_including_opt().map(|i| Cur::R(i, true)),
            IterKind::Edns => pp.into_iter_edns().map(Cur::E),
        }
    }
    fn next(self) -> Option<Cur<'a>> {
        match self {
            Cur::Q(i) => i.next().map(Cur::Q),
            Cur::R(i, false) => i.next().map(|i| Cur::R(i, false)),
            Cur::R(i, true) => i.next_including_opt().map(|i| Cur::R(i, true)),
            Cur::E(i) => i.next().map(Cur::E),
        }
    }
    fn offset(&self) -> Option<usize> {
        cur!(self, i => i.offset())
    }
    fn pp(&self) -> &ParsedPacket {
        cur!(self, i => i.parsed_packet())
    }
    fn uncompress(&mut self) -> Result<(), String> {
        cur!(self, i => i.uncompress().map_err(|e| e.to_string()))
    }
    fn set_raw_name(&mut self, n: &[u8]) -> Result<(), String> {
        match self {
            Cur::Q(i) => i.set_raw_name(n).map_err(|e| e.to_string()),
            Cur::R(i, _) => i.set_raw_name(n).map_err(|e| e.to_string()),
            Cur::E(_) => Err("n/a".into()),
        }
    }
    fn delete(&mut self) -> Result<(), String> {
        match self {
            Cur::Q(i) => i.delete().map_err(|e| e.to_string()),
            Cur::R(i, _) => i.delete().map_err(|e| e.to_string()),
            Cur::E(_) => Err("n/a".into()),
        }
    }
    fn name(&self) -> Vec<u8> {
        match self {
            Cur::Q(i) => i.name(),
            Cur::R(i, _) => i.name(),
            Cur::E(_) => vec![],
        }
    }
    fn rr_type(&self) -> u16 {
        match self {
            Cur::Q(i) => i.rr_type(),
            Cur::R(i, _) => i.rr_type(),
            Cur::E(_) => 0,
        }
    }
}

/// Where the cursor stands, in model coordinates, recovered from its offset.
#[derive(Clone, Copy, PartialEq, Eq, Debug)]
enum Pos {
    Question,
    Rec(usize, usize),
    Option(usize),
    Tombstone,
}

fn locate(d: &Decoded, off: Option<usize>) -> Option<Pos> {
    let off = match off {
        None => return Some(Pos::Tombstone),
        Some(o) => o,
    };
    if d.layout.question.first().map(|q| q.off) == Some(off) {
        return Some(Pos::Question);
    }
    for s in 0..3 {
        if let Some(i) = d.layout.sec[s].iter().position(|r| r.off == off) {
            return Some(Pos::Rec(s, i));
        }
    }
    if let Some(o) = &d.layout.opt {
        if let Some(i) = o.option_offs.iter().position(|&x| x == off) {
            return Some(Pos::Option(i));
        }
    }
    None
}

// ---------------------------------------------------------------------------

#[derive(Clone, Copy)]
pub struct Mix {
    /// probability (x/16) that a step is an error-provoking operation
    pub error_sixteenths: usize,
    pub max_steps: usize,
    pub big_start: bool,
    /// start from a COMPRESSED packet whose pointer-free size is just below this limit (8192 or 65535)
    pub near_limit: usize,
    /// which property's run this is (read-back findings are attributed to it)
    pub want: Prop,
}

pub struct Outcome {
    pub steps: usize,
    pub findings: Vec<Finding>,
    pub log: Vec<String>,
    pub start: Vec<u8>,
}

struct Run<'r> {
    want: Prop,
    rng: &'r mut Rng,
    model: Msg,
    nocase: bool,
    log: Vec<String>,
    findings: Vec<Finding>,
    ctx_counts: Vec<String>,
    sigs: Vec<String>,
    steps: usize,
    failed_ops: usize,
    flag_before: bool,
}

fn text_label_for_limit(rng: &mut Rng, n: usize) -> Vec<u8> {
    (0..n).map(|_| *rng.pick(b"abcdefghij")).collect()
}

fn legal_wire_name(rng: &mut Rng, target_len: Option<usize>) -> Name {
    let cfg = Cfg { long_names: false, ..Default::default() };
    match target_len {
        Some(w) if w >= 3 => name_of_wire_len(rng, w.min(255)),
        Some(_) => Name::root(),
        None => {
            let k = rng.range(0, 4);
            Name((0..k).map(|_| gen_label(rng, &cfg)).collect())
        }
    }
}

fn invalid_wire_name(rng: &mut Rng) -> (Vec<u8>, &'static str) {
    match rng.below(9) {
        7 | 8 => {
            // well-formed wire name, but a character the parser refuses in owner names; several lengths so
            // that the record would have to grow or shrink
            let c = *rng.pick(&[b'.', b'\\', 0x00, 0x09, 0x1f, 0x7f]);
            let mut l = vec![b'w', c];
            l.extend(std::iter::repeat(b'z').take(rng.below(20)));
            (Name(vec![l, b"example".to_vec()]).to_wire(), "bad-char")
        }
        0 => (vec![1, b'a', 0xc0, 0x0c], "pointer-inside"),
        1 => {
            let mut v = vec![64u8];
            v.extend_from_slice(&[b'x'; 64]);
            v.push(0);
            (v, "label-64")
        }
        2 => (Name(vec![vec![b'a'; 63], vec![b'b'; 63], vec![b'c'; 63], vec![b'd'; 62]]).to_wire(), "total-256"),
        3 => (vec![3, b'a', b'b'], "truncated"),
        4 => (vec![], "empty"),
        5 => (vec![5, b'a', b'b', b'c', b'd', b'e'], "unterminated"),
        _ => (vec![0x80, 1, 2, 0], "bad-label-type"),
    }
}

thread_local! {
    /// mirror of the running history's log, readable after a panic
    pub static LIVE_LOG: std::cell::RefCell<Vec<String>> = const { std::cell::RefCell::new(Vec::new()) };
}

impl<'r> Run<'r> {
    fn logp(&mut self, s: String) {
        LIVE_LOG.with(|l| l.borrow_mut().push(s.clone()));
        self.log.push(s);
    }
    /// has this run found what it is looking for?
    fn halt(&self) -> bool {
        self.findings.iter().any(|fd| fd.prop == self.want)
    }
    fn note(&mut self, k: &str) {
        self.ctx_counts.push(k.to_string());
    }

    /// After a step that returned Ok (or any step): C08 view + C09 content. The two are judged independently:
    /// a stale view must not hide a wrong message, nor the other way round.
    fn monitor(&mut self, pp: &ParsedPacket, what: &str) -> Option<Decoded> {
        let cls = what.trim_start().split(|c| c == '(' || c == ' ').next().unwrap_or("").to_string();
        let view = check_view(pp);
        if let Err(fd) = &view {
            self.findings.push(Finding { prop: fd.prop, class: fd.class.clone(), detail: format!("after {}: {}", what, fd.detail) });
        }
        // C09: decode the bytes on their own
        let decoded = pp.packet.as_ref().map(|b| refparse(b, if strict_state(b) { STRICT } else { RELAXED }));
        match decoded {
            None | Some(Err(_)) => {
                self.findings.push(f(Prop::C09, format!("effect|{}|undecodable", cls), format!("after {}: the packet no longer decodes", what)));
                None
            }
            Some(Ok(d)) => {
                if let Some(diff) = d.msg.diff(&self.model, self.nocase, false) {
                    self.findings.push(f(Prop::C09, format!("effect|{}", cls), format!("after {}: decoded message differs from the model: {}", what, diff)));
                    if self.want != Prop::C09 {
                        self.model = d.msg.clone();
                    }
                    None
                } else if view.is_err() {
                    None
                } else {
                    Some(d)
                }
            }
        }
    }

    /// C10: the call returned Err; nothing may have changed.
    fn failed(&mut self, pp: &ParsedPacket, before: &Msg, what: &str) {
        self.failed_ops += 1;
        self.note("failed_ops_checked");
        match pp.packet.as_ref().map(|b| refparse(b, RELAXED)) {
            None => self.findings.push(f(Prop::C10, "failed-op|packet-lost", format!("after failed {}: the object holds no packet", what))),
            Some(Err(r)) => self.findings.push(f(Prop::C10, format!("failed-op|bytes-rejected|{}", r.clause.as_str()), format!("after failed {}", what))),
            Some(Ok(d)) => {
                if let Some(diff) = d.msg.diff(before, self.nocase, false) {
                    let cls = what.trim_start().split(|c| c == '(' || c == ' ').next().unwrap_or("").to_string();
                    self.findings.push(f(Prop::C10, format!("failed-op|message-changed|{}", cls), format!("{} returned an error but the message changed: {}", what, diff)));
                    // an operation that reports failure has no stated effect at all
                    self.findings.push(f(Prop::C09, format!("effect|{}|failed-call-changed-message", cls), format!("{} returned an error but the message changed: {}", what, diff)));
                }
                if let Err(fd) = check_view(pp) {
                    self.findings.push(Finding { prop: Prop::C10, class: format!("failed-op|{}", fd.class), detail: format!("after failed {}: {}", what, fd.detail) });
                }
                // In a state the parser cannot represent (no question, or a query holding records) an object
                // marked "maybe compressed" can no longer be edited at all: every edit first decompresses, which
                // re-parses. A call that reports failure must not put the object there.
                let bytes = pp.packet.as_ref().unwrap();
                if !strict_state(bytes) && pp.maybe_compressed && !self.flag_before {
                    self.findings.push(f(
                        Prop::C10,
                        "failed-op|object-left-uneditable",
                        format!("{} returned an error and left the object marked as possibly compressed although its bytes cannot be re-parsed (no question / query with records): later edits will all fail", what),
                    ));
                }
            }
        }
    }

    fn literal_len(&self) -> usize {
        self.model.encode_literal().len()
    }
}

fn gtype(t: u16) -> Type {
    match t {
        1 => Type::A,
        2 => Type::NS,
        15 => Type::MX,
        16 => Type::TXT,
        28 => Type::AAAA,
        255 => Type::ANY,
        _ => Type::SOA,
    }
}

/// Run one history. Everything is a pure function of `rng`.
pub fn run_history(rng: &mut Rng, mix: Mix) -> Outcome {
    // ---- starting point
    let start_kind = rng.below(10);
    let (mut pp, start_bytes, start_desc): (ParsedPacket, Vec<u8>, String) = if mix.near_limit > 0 {
        // many records named through pointers: small on the wire, just below the limit once decompressed
        let mut m = Msg { id: rng.u16(), flags: 0x8180, ..Default::default() };
        let qn = Name(vec![text_label_for_limit(rng, 20), b"example".to_vec(), b"com".to_vec()]);
        m.question.push(Question { name: qn.clone(), qtype: 1, qclass: 1 });
        let slack = rng.range(0, 300);
        let goal = mix.near_limit - slack;
        let mut i = 0u32;
        let mut cur_len = m.encode_literal().len();
        loop {
            // (near_limit 70001: only small records with a shared owner, so that the packet is far smaller on the
            // wire than once decompressed)
            let r = if mix.near_limit > 10000 && mix.near_limit != 70001 && i % 4 != 0 {
                Record { name: qn.clone(), rtype: T_TXT, class: 1, ttl: i, rdata: RData::Opaque(vec![b't'; 600]) }
            } else {
                Record { name: qn.clone(), rtype: T_A, class: 1, ttl: i, rdata: RData::A([10, 0, (i >> 8) as u8, i as u8]) }
            };
            let l = r.wire_literal().len();
            if cur_len + l > goal {
                break;
            }
            cur_len += l;
            m.sec[(i % 3) as usize].push(r);
            i += 1;
        }
        if rng.chance(1, 2) {
            // an OPT record advertising a payload above the library's own limit changes nothing about that limit
            let payload = *rng.pick(&[512u16, 4096, 8193, 16384, 65535]);
            let opt = Record { name: Name::root(), rtype: T_OPT, class: payload, ttl: 0, rdata: RData::Opt(vec![(10, vec![1, 2, 3, 4, 5, 6, 7, 8])]) };
            let at = rng.below(m.sec[2].len() + 1);
            while m.encode_literal().len() + opt.wire_literal().len() > goal && !m.sec[0].is_empty() {
                m.sec[0].pop();
            }
            m.sec[2].insert(at, opt);
        }
        let lit = m.encode_literal();
        let b = Compress::compress(&lit).unwrap_or(lit);
        match DNSSector::new(b.clone()).unwrap().parse() {
            Ok(pp) => (pp, b, format!("near-limit({})", mix.near_limit)),
            Err(_) => return Outcome { steps: 0, findings: vec![], log: vec!["start rejected".into()], start: b },
        }
    } else if mix.big_start {
        // an accepted packet larger than 8192 bytes, as arrives over TCP
        let mut m = Msg { id: rng.u16(), flags: 0x8180, ..Default::default() };
        m.question.push(Question { name: Name::from_labels(&[b"big", b"example"]), qtype: 16, qclass: 1 });
        let n = rng.range(9, 60);
        for i in 0..n {
            let l = rng.range(700, 1000);
            m.sec[i % 3].push(Record { name: m.question[0].name.clone(), rtype: T_TXT, class: 1, ttl: i as u32, rdata: RData::Opaque(vec![b'x'; l]) });
        }
        let b = if rng.chance(1, 2) { Compress::compress(&m.encode_literal()).unwrap_or_else(|_| m.encode_literal()) } else { m.encode_literal() };
        match DNSSector::new(b.clone()).unwrap().parse() {
            Ok(pp) => (pp, b, "big".into()),
            Err(_) => return Outcome { steps: 0, findings: vec![], log: vec!["start rejected".into()], start: b },
        }
    } else if start_kind == 0 {
        let pp = ParsedPacket::empty();
        let b = pp.packet().to_vec();
        (pp, b, "empty()".into())
    } else if start_kind == 1 {
        let n = text_name(rng, 100);
        let t = *rng.pick(&[1u16, 28, 15, 16, 255, 2]);
        let txt = name_to_text(&n, rng.chance(1, 2));
        match r#gen::query(txt.as_bytes(), gtype(t), Class::IN) {
            Ok(pp) => {
                let b = pp.packet().to_vec();
                (pp, b, format!("query({:?})", txt))
            }
            Err(e) => return Outcome { steps: 0, findings: vec![f(Prop::C08, "start|query-failed", format!("gen::query({:?}) failed: {}", txt, e))], log: vec![], start: vec![] },
        }
    } else {
        let cfg = Cfg {
            compress_eighths: *rng.pick(&[0usize, 0, 4, 6, 8]),
            max_records: 8,
            unique_ttl: rng.chance(1, 2),
            alphabet: 5,
            // names that alias header bytes: a header *setter* on them is the known finding handled by
            // `header_alias_case`; every other operation must work on them (the first one that decompresses
            // ends the aliasing), so a quarter of these starts may have such names and the history then
            // avoids header setters while a pointer into the header remains
            allow_header_targets: rng.chance(1, 4),
            ..Default::default()
        };
        let v = gen_valid(rng, &cfg);
        match DNSSector::new(v.bytes.clone()).unwrap().parse() {
            Ok(pp) => (pp, v.bytes, format!("parsed({:?},ptr{})", v.opt_pos, v.pointers)),
            Err(_) => return Outcome { steps: 0, findings: vec![], log: vec!["start rejected".into()], start: v.bytes },
        }
    };
    let model0 = match refparse(&start_bytes, RELAXED) {
        Ok(d) => d.msg,
        Err(_) => return Outcome { steps: 0, findings: vec![f(Prop::C08, "start|not-wellformed", format!("starting bytes are not well-formed: {}", short(&start_bytes)))], log: vec![start_desc], start: start_bytes },
    };
    LIVE_LOG.with(|l| {
        let mut l = l.borrow_mut();
        l.clear();
        l.push(format!("start {} bytes {}", start_desc, hex(&start_bytes[..start_bytes.len().min(700)])));
    });
    let mut run = Run { want: mix.want, rng, model: model0, nocase: false, log: vec![format!("start {}", start_desc)], findings: vec![], ctx_counts: vec![], sigs: vec![], steps: 0, failed_ops: 0, flag_before: false };
    if run.monitor(&pp, "start").is_none() {
        let Run { log, findings, .. } = run;
        return Outcome { steps: 0, findings, log, start: start_bytes };
    }
    let nsteps = run.rng.range(1, mix.max_steps);
    let mut prev_sig = String::from("start");
    // Replacing the question (delete it, insert another one) is the only way a record enters the question
    // section of a parsed packet; on starts at or above the size limit a third of the histories begin with it,
    // so that the limit is also exercised for Section::Question.
    let mut force_question_insert = false;
    if (mix.big_start || mix.near_limit == 8192) && !run.model.question.is_empty() && run.rng.chance(1, 3) {
        let what = "into_iter_question().delete() [question replacement]".to_string();
        run.logp(what.clone());
        let before = run.model.clone();
        let strict = strict_state(pp.packet());
        let r = pp.into_iter_question().map(|mut q| q.delete());
        match r {
            Some(Ok(())) => {
                run.model.question.remove(0);
                run.note("question_replacements");
                force_question_insert = run.monitor(&pp, &what).is_some();
            }
            Some(Err(e)) => {
                if strict {
                    run.findings.push(f(Prop::C08, "unexpected-error|delete", format!("{}: {}", what, e)));
                }
                run.failed(&pp, &before, &what);
            }
            None => run.findings.push(f(Prop::C08, "cursor|missing", format!("{}: no question cursor on a packet with a question", what))),
        }
    }
    for step in 0..nsteps {
        // a finding of ANOTHER property does not end the history: its consequences may be what this run is after
        if run.halt() {
            break;
        }
        run.steps += 1;
        let bytes_now = pp.packet().to_vec();
        // "nothing changed" is judged against what the packet decoded to before the call, not against the model
        let decoded_now = refparse(&bytes_now, RELAXED);
        let aliasing = decoded_now.as_ref().map(|d| d.layout.ptr_into_header).unwrap_or(false);
        let before = decoded_now.map(|d| d.msg).unwrap_or_else(|_| run.model.clone());
        let strict = strict_state(&bytes_now);
        let compressed = pp.maybe_compressed;
        run.flag_before = compressed;
        let err_step = run.rng.below(16) < mix.error_sixteenths;
        let mut choice = run.rng.below(100);
        let forced_q = std::mem::replace(&mut force_question_insert, false);
        if forced_q {
            choice = 30 + run.rng.below(20);
        }
        if aliasing {
            run.note("steps_on_header_aliased_packets");
            if choice < 14 {
                choice = 14 + run.rng.below(86);
            }
        }
        let sig: String;
        if choice < 14 {
            // ---- header setters
            let what;
            match run.rng.below(5) {
                0 => {
                    let v = run.rng.u16();
                    pp.set_tid(v);
                    run.model.id = v;
                    what = format!("set_tid({:#x})", v);
                }
                1 => {
                    let v = run.rng.u32();
                    pp.set_flags(v);
                    run.model.flags = (run.model.flags & 0x780f) | (v as u16 & 0x87f0);
                    what = format!("set_flags({:#x})", v);
                }
                2 => {
                    let v = run.rng.u8();
                    pp.set_rcode(v);
                    run.model.flags = (run.model.flags & !0xf) | (v & 0xf) as u16;
                    what = format!("set_rcode({})", v);
                }
                3 => {
                    let v = run.rng.u8();
                    pp.set_opcode(v);
                    run.model.flags = (run.model.flags & !0x7800) | (((v & 0xf) as u16) << 11);
                    what = format!("set_opcode({})", v);
                }
                _ => {
                    let v = run.rng.chance(2, 3);
                    pp.set_response(v);
                    run.model.flags = if v { run.model.flags | 0x8000 } else { run.model.flags & 0x7fff };
                    what = format!("set_response({})", v);
                }
            }
            sig = format!("setter|{}", what.split('(').next().unwrap());
            run.logp(what.clone());
            run.monitor(&pp, &what);
        } else if choice < 18 {
            let what = "recompute()".to_string();
            run.logp(what.clone());
            sig = format!("recompute|c{}", compressed as u8);
            match pp.recompute() {
                Ok(()) => {
                    run.monitor(&pp, &what);
                }
                Err(_) if !strict => run.failed(&pp, &before, &what),
                Err(e) => run.findings.push(f(Prop::C08, "unexpected-error|recompute", format!("{} failed on a valid object: {}", what, e))),
            }
        } else if choice < 30 {
            // ---- rename (packet-level wrapper)
            let (target, source, suffix, kind) = if err_step && run.rng.chance(1, 2) {
                // arguments that must make the call fail: empty, over-long, root, or a target that is a
                // well-formed wire name but holds characters the parser rejects (ill-formed wire names are
                // outside the documented "raw name" precondition and are not generated)
                let src = run.model.question.first().map(|q| q.name.to_wire()).filter(|w| w.len() > 1).unwrap_or(vec![1, b'a', 0]);
                match run.rng.below(5) {
                    0 => (vec![], src, true, "empty-target"),
                    1 => (vec![1, b'a', 0], vec![], true, "empty-source"),
                    2 => (Name(vec![vec![b'a'; 63], vec![b'b'; 63], vec![b'c'; 63], vec![b'd'; 62]]).to_wire(), src, true, "target-256"),
                    3 => (vec![0], src, true, "root-target"),
                    _ => (vec![3, b'a', *run.rng.pick(&[b'.', b'\\', 0x00, 0x1f, 0x7f]), b'b', 0], src, true, "target-bad-char"),
                }
            } else {
                let (t, s, suffix, kind) = super::c07::draw_args(run.rng, &run.model);
                (t.to_wire(), s.to_wire(), suffix, kind)
            };
            let what = format!("rename(target={} source={} suffix={} {})", hex(&target[..target.len().min(40)]), hex(&source[..source.len().min(40)]), suffix, kind);
            run.logp(what.clone());
            sig = format!("rename|{}|c{}", kind, compressed as u8);
            let tn = Name::from_wire(&target).filter(|(n, l)| *l == target.len() && !n.is_root() && n.0.iter().all(|l| l.iter().all(|&c| !(c < 0x20 || c == 0x7f || c == b'.' || c == b'\\'))));
            let sn = Name::from_wire(&source).filter(|(n, l)| *l == source.len() && !n.is_root());
            let expect = match (&tn, &sn) {
                (Some((t, _)), Some((s, _))) if t.wire_len() <= 255 && s.wire_len() <= 255 => Some(model_rename(&run.model, t, s, suffix)),
                _ => None, // arguments outside the property's domain: only "no change on error" is demanded
            };
            match pp.rename_with_raw_names(&target, &source, suffix) {
                Ok(()) => match expect {
                    Some(Ok((m, hits))) => {
                        if hits > 0 {
                            run.note("renames_with_matches");
                        }
                        run.model = m;
                        run.nocase = true;
                        run.monitor(&pp, &what);
                    }
                    Some(Err(())) => run.findings.push(f(Prop::C10, "rename|overflow-not-reported", format!("{}: a name exceeds 255 bytes but the call succeeded", what))),
                    None => {
                        // ill-formed arguments accepted: whatever happened must still leave a consistent object
                        match check_view(&pp) {
                            Ok(d) => {
                                run.model = d.msg;
                                run.nocase = true;
                            }
                            Err(fd) => run.findings.push(Finding { prop: Prop::C08, class: fd.class, detail: format!("after {}: {}", what, fd.detail) }),
                        }
                    }
                },
                Err(e) => {
                    match expect {
                        Some(Ok(_)) if strict => run.findings.push(f(Prop::C08, "unexpected-error|rename", format!("{}: {}", what, e))),
                        _ => {}
                    }
                    run.failed(&pp, &before, &what);
                }
            }
        } else if choice < 50 {
            // ---- insertion
            let sec = if forced_q { 0 } else { run.rng.below(4) };
            let section = [Section::Question, Section::Answer, Section::NameServers, Section::Additional][sec];
            let lit_len = run.literal_len();
            if err_step && run.rng.chance(1, 3) {
                let (text, kind) = damaged_text(run.rng);
                let what = format!("insert_rr_from_string({:?}, {:?}) [{}]", section, text, kind);
                run.logp(what.clone());
                sig = format!("insert-bad-text|{}", sec);
                match pp.insert_rr_from_string(section, &text) {
                    Ok(()) => run.findings.push(f(Prop::C10, "insert|bad-text-accepted", what)),
                    Err(_) => run.failed(&pp, &before, &what),
                }
            } else if sec == 0 {
                let n = text_name(run.rng, 100);
                let t = *run.rng.pick(&[1u16, 28, 15, 255]);
                let txt = name_to_text(&n, true);
                let what = format!("insert_rr(Question, new_question({:?}, {}))", txt, t);
                run.logp(what.clone());
                let had = !run.model.question.is_empty();
                sig = format!("insert-question|had{}|c{}", had as u8, compressed as u8);
                let rr = RR::new_question(txt.as_bytes(), gtype(t), Class::IN).expect("valid question text");
                let rr_len = rr.packet.len();
                match pp.insert_rr(Section::Question, rr) {
                    Ok(()) => {
                        if had {
                            run.findings.push(f(Prop::C10, "insert|second-question-accepted", what.clone()));
                        } else {
                            run.model.question.push(Question { name: n, qtype: u16::from(gtype(t)), qclass: 1 });
                            // the size limit holds for a replacement question as for any other record
                            if pp.packet().len() > 8192 {
                                run.findings.push(f(Prop::C10, "insert|size-limit-bypassed", format!("{}: packet is now {} bytes", what, pp.packet().len())));
                            }
                            run.note("question_inserts_ok");
                            run.monitor(&pp, &what);
                        }
                    }
                    Err(e) => {
                        if !had && strict && lit_len + rr_len <= 8192 {
                            run.findings.push(f(Prop::C08, "unexpected-error|insert", format!("{}: {}", what, e)));
                        }
                        run.failed(&pp, &before, &what);
                    }
                }
            } else {
                // near the 8192-byte limit, now and then a record sized to land exactly on it (or one byte to
                // either side)
                let room = 8192usize.saturating_sub(lit_len);
                let exact = if room <= 14 + 255 + 1 && room + 1 >= 14 && run.rng.chance(1, 2) {
                    crate::model::text::txt_of_wire_len((room + 1).saturating_sub(run.rng.below(3)))
                } else {
                    None
                };
                if exact.is_some() {
                    run.note("inserts_sized_to_the_8192_limit");
                }
                let tc = match exact {
                    Some(tc) => tc,
                    None => valid_text(run.rng, None),
                };
                let via_string = run.rng.chance(1, 2);
                let what = format!("insert_rr{}({:?}, {:?})", if via_string { "_from_string" } else { "" }, section, &tc.text[..tc.text.len().min(80)]);
                run.logp(what.clone());
                sig = format!("insert|{}|{}|c{}|opt{}", sec, tc.kind, compressed as u8, run.model.opt().is_some() as u8);
                let r = if via_string {
                    pp.insert_rr_from_string(section, &tc.text).map_err(|e| e.to_string())
                } else {
                    match RR::from_string(&tc.text) {
                        Ok(rr) => pp.insert_rr(section, rr).map_err(|e| e.to_string()),
                        Err(e) => Err(format!("from_string: {}", e)),
                    }
                };
                let fits = lit_len + tc.wire.len() <= 8192;
                match r {
                    Ok(()) => {
                        run.model.sec[sec - 1].push(tc.rec.clone());
                        if pp.packet().len() > 8192 {
                            run.findings.push(f(Prop::C10, "insert|size-limit-bypassed", format!("{}: packet is now {} bytes", what, pp.packet().len())));
                        }
                        run.note("inserts_ok");
                        run.monitor(&pp, &what);
                    }
                    Err(e) => {
                        if fits && strict {
                            run.findings.push(f(Prop::C08, "unexpected-error|insert", format!("{}: {}", what, e)));
                        }
                        if !fits {
                            run.note("insert_too_large_reported");
                        }
                        run.failed(&pp, &before, &what);
                    }
                }
            }
        } else {
            // ---- iterator session
            let kind = *run.rng.pick(&[
                IterKind::Question,
                IterKind::Answer,
                IterKind::Answer,
                IterKind::NameServers,
                IterKind::Additional,
                IterKind::Additional,
                IterKind::AdditionalInclOpt,
                IterKind::AdditionalInclOpt,
                IterKind::Edns,
            ]);
            sig = format!("session|{:?}|c{}|opt{}", kind, compressed as u8, run.model.opt().is_some() as u8);
            run.logp(format!("open {:?}", kind));
            session(&mut run, &mut pp, kind, err_step, strict);
            if !run.halt() {
                run.monitor(&pp, "session end");
            }
        }
        // the question getters, through &mut; and a complete read-back through the iterators (EDNS options
        // included): what the API hands out must be what the bytes hold
        if !run.halt() {
            if let Ok(d) = check_view(&pp) {
                if let Err(fd) = check_question_getters(&mut pp, &d, step) {
                    run.findings.push(fd);
                }
            }
        }
        let do_read_back = match mix.want {
            Prop::C09 => run.findings.iter().all(|fd| fd.prop != Prop::C09),
            Prop::C08 => !run.halt() && run.rng.chance(1, 3),
            Prop::C10 => false,
        };
        if do_read_back && pp.packet.is_some() && strict_state(pp.packet()) {
            let b = pp.packet().to_vec();
            if let Ok(d) = refparse(&b, STRICT) {
                if let Err(e) = super::c03::read_back(&mut pp, &d, &b) {
                    let cls: String = e.split(':').next().unwrap_or("").chars().filter(|c| !c.is_ascii_digit()).collect();
                    run.findings.push(f(mix.want, format!("read-back|{}", cls), format!("after step {}: the iterators do not hand out what the bytes hold: {}", step, e)));
                }
            }
        }
        run.sigs.push(format!("{}>{}", prev_sig, sig));
        run.sigs.push(sig.clone());
        prev_sig = sig;
    }
    // the object must still be usable: a complete read-only walk (states the parser can represent)
    if !run.halt() && pp.packet.is_some() && strict_state(pp.packet()) {
        let b = pp.packet().to_vec();
        if let Ok(d) = refparse(&b, STRICT) {
            if let Err(e) = super::c03::read_back(&mut pp, &d, &b) {
                run.findings.push(f(Prop::C08, "final-walk", format!("read-only walk after the history: {}", e)));
            }
        }
    }
    let Run { log, mut findings, ctx_counts, sigs, steps, .. } = run;
    // smuggle counters / signatures out through the log-free channel
    findings.retain(|_| true);
    Outcome { steps, findings, log: log.into_iter().chain(ctx_counts.into_iter().map(|c| format!("#count {}", c))).chain(sigs.into_iter().map(|s| format!("#sig {}", s))).collect(), start: start_bytes }
}

/// One iterator session: open, advance, a few cursor operations, monitored after each.
fn session(run: &mut Run, pp: &mut ParsedPacket, kind: IterKind, err_step: bool, strict: bool) {
    let mut cur = match Cur::open(pp, kind) {
        Some(c) => c,
        None => {
            run.logp("  (section empty)".into());
            return;
        }
    };
    let advance = run.rng.below(4);
    for _ in 0..advance {
        match cur.next() {
            Some(c) => cur = c,
            None => {
                run.logp("  (walked off the end)".into());
                return;
            }
        }
    }
    let nops = run.rng.range(1, 5);
    for _ in 0..nops {
        if run.halt() {
            return;
        }
        let d = match check_view(cur.pp()) {
            Ok(d) => d,
            Err(fd) => {
                // the view is inconsistent: fall back on the bytes alone to locate the cursor (C09 / C10 runs go on)
                let relaxed = cur.pp().packet.as_ref().and_then(|b| refparse(b, RELAXED).ok());
                run.findings.push(fd);
                match relaxed {
                    Some(d) if run.want != Prop::C08 => d,
                    _ => return,
                }
            }
        };
        let before = d.msg.clone();
        if run.want != Prop::C09 && d.msg.diff(&run.model, run.nocase, false).is_some() {
            // the model drifted for a reason that is another property's business: follow the bytes
            run.model = d.msg.clone();
        }
        let pos = match locate(&d, cur.offset()) {
            Some(p) => p,
            None => {
                run.findings.push(f(Prop::C08, "cursor|not-on-a-record", format!("cursor offset {:?} is not the start of any record of {:?}", cur.offset(), kind)));
                return;
            }
        };
        // positions come from the bytes; the model may be shorter if it drifted in a C09 run
        if let Pos::Rec(s, i) = pos {
            if i >= run.model.sec[s].len() {
                return;
            }
        }
        if matches!(pos, Pos::Question) && run.model.question.is_empty() {
            return;
        }
        let is_opt_rec = matches!(pos, Pos::Rec(s, i) if d.msg.sec[s][i].is_opt());
        let op = run.rng.below(100);
        let compressed = cur.pp().maybe_compressed;
        if op < 18 {
            // ---- next
            run.logp("  next".into());
            match cur.next() {
                Some(c) => cur = c,
                None => return,
            }
        } else if op < 28 {
            // ---- in-place decompression through the iterator
            let what = "  it.uncompress()".to_string();
            run.logp(what.clone());
            run.sigs.push(format!("it.uncompress|{:?}|c{}|{:?}", kind, compressed as u8, std::mem::discriminant(&pos)));
            match cur.uncompress() {
                Ok(()) => {
                    let d2 = match run.monitor(cur.pp(), &what) {
                        Some(d) => d,
                        None => return,
                    };
                    // the cursor still designates the same record
                    let pos2 = locate(&d2, cur.offset());
                    if pos2 != Some(pos) {
                        run.findings.push(f(Prop::C08, "cursor|lost-by-uncompress", format!("cursor was on {:?}, after in-place decompression it is on {:?} (offset {:?})", pos, pos2, cur.offset())));
                        return;
                    }
                }
                Err(e) => {
                    if strict && !matches!(pos, Pos::Tombstone) {
                        run.findings.push(f(Prop::C08, "unexpected-error|it.uncompress", format!("{}: {}", what, e)));
                    }
                    run.failed(cur.pp(), &before, &what);
                }
            }
        } else if matches!(kind, IterKind::Edns) {
            // option cursors only support next / uncompress
            run.logp("  next".into());
            match cur.next() {
                Some(c) => cur = c,
                None => return,
            }
        } else if op < 52 {
            // ---- set_raw_name
            if is_opt_rec {
                continue; // renaming the OPT owner asks for a packet outside the parser's language
            }
            let cur_len = match pos {
                Pos::Question => run.model.question[0].name.wire_len(),
                Pos::Rec(s, i) => run.model.sec[s][i].name.wire_len(),
                _ => 1,
            };
            if err_step || matches!(pos, Pos::Tombstone) {
                let (w, why) = if matches!(pos, Pos::Tombstone) && !err_step { (vec![1, b'a', 0], "tombstone") } else { invalid_wire_name(run.rng) };
                let what = format!("  set_raw_name({}) [{}]", hex(&w[..w.len().min(24)]), why);
                run.logp(what.clone());
                run.sigs.push(format!("set_raw_name-bad|{}|{:?}", why, kind));
                match cur.set_raw_name(&w) {
                    Ok(()) => {
                        run.findings.push(f(Prop::C10, format!("set_raw_name|invalid-accepted|{}", why), what));
                        return;
                    }
                    Err(_) => run.failed(cur.pp(), &before, &what),
                }
                continue;
            }
            if run.rng.chance(1, 12) {
                // a well-formed wire name holding a character the parser rejects in owner names: the call
                // may refuse it; if it accepts, the result is monitored like any other
                let c = *run.rng.pick(&[b'.', b'\\', 0x00, 0x09, 0x1f, 0x7f]);
                let n = Name(vec![vec![b'w', c, b'z'], b"example".to_vec()]);
                let what = format!("  set_raw_name({:?}) [parser-illegal character] on {:?}", n, pos);
                run.logp(what.clone());
                run.sigs.push(format!("set_raw_name-illegal-char|{:?}", kind));
                match cur.set_raw_name(&n.to_wire()) {
                    Ok(()) => {
                        match pos {
                            Pos::Question => run.model.question[0].name = n.clone(),
                            Pos::Rec(s, i) => run.model.sec[s][i].name = n.clone(),
                            _ => {}
                        }
                        if run.monitor(cur.pp(), &what).is_none() {
                            return;
                        }
                    }
                    Err(_) => run.failed(cur.pp(), &before, &what),
                }
                continue;
            }
            let target_len = match run.rng.below(6) {
                0 => Some(cur_len),                                   // equal length
                1 => Some(cur_len.saturating_sub(run.rng.range(1, 6)).max(1)), // shorter
                2 => Some((cur_len + run.rng.range(1, 12)).min(255)), // longer
                3 => Some(*run.rng.pick(&[1usize, 255, 254, 3])),
                _ => None,
            };
            let target_len = target_len.map(|l| if l == 2 { 3 } else { l });
            let n = legal_wire_name(run.rng, target_len);
            let grow = n.wire_len() as isize - cur_len as isize;
            let what = format!("  set_raw_name({:?}) on {:?}", n, pos);
            run.logp(what.clone());
            run.sigs.push(format!("set_raw_name|{:?}|{}|c{}|opt{}", kind, grow.signum(), compressed as u8, run.model.opt().is_some() as u8));
            let fits = run.literal_len() as isize + grow <= 0xffff;
            // the name may sit at the start of a longer slice (a zero-padded 256-byte buffer, or other bytes after
            // the root label): the call may refuse that, or take the name and nothing else
            let mut arg = n.to_wire();
            let padded = run.rng.chance(1, 8);
            if padded {
                if run.rng.chance(1, 2) {
                    arg.resize(256.max(arg.len() + 1), 0);
                } else {
                    let k = run.rng.range(1, 40);
                    for _ in 0..k {
                        let b = run.rng.u8();
                        arg.push(b);
                    }
                }
                run.logp(format!("    (name passed at the start of a {}-byte slice)", arg.len()));
                run.note("names_set_from_longer_slice");
            }
            match cur.set_raw_name(&arg) {
                Ok(()) => {
                    match pos {
                        Pos::Question => run.model.question[0].name = n.clone(),
                        Pos::Rec(s, i) => run.model.sec[s][i].name = n.clone(),
                        _ => {}
                    }
                    run.note("names_set");
                    let d2 = match run.monitor(cur.pp(), &what) {
                        Some(d) => d,
                        None => return,
                    };
                    // (d) the cursor still designates the changed record ...
                    let pos2 = locate(&d2, cur.offset());
                    if pos2 != Some(pos) || cur.name() != n.to_text_lower() {
                        run.findings.push(f(Prop::C08, "cursor|lost-by-set_raw_name", format!("after {} the cursor is on {:?} and reads name {:?}", what, pos2, String::from_utf8_lossy(&cur.name()))));
                        return;
                    }
                    let want_type = match pos {
                        Pos::Question => run.model.question[0].qtype,
                        Pos::Rec(s, i) => run.model.sec[s][i].rtype,
                        _ => 0,
                    };
                    if cur.rr_type() != want_type {
                        run.findings.push(f(Prop::C08, "cursor|lost-by-set_raw_name", format!("after {} the cursor reads type {} want {}", what, cur.rr_type(), want_type)));
                        return;
                    }
                    // ... and advancing yields the record that followed
                    if run.rng.chance(1, 2) {
                        run.logp("  next (after name change)".into());
                        let want_next: Option<Pos> = match pos {
                            Pos::Question => None,
                            Pos::Rec(s, i) => {
                                let skip = matches!(kind, IterKind::Additional);
                                (i + 1..d2.msg.sec[s].len()).find(|&j| !(skip && d2.msg.sec[s][j].is_opt())).map(|j| Pos::Rec(s, j))
                            }
                            _ => None,
                        };
                        match cur.next() {
                            None => {
                                if want_next.is_some() {
                                    run.findings.push(f(Prop::C08, "cursor|next-after-name-change", format!("after {} next() ended the walk but {:?} follows", what, want_next)));
                                }
                                return;
                            }
                            Some(c) => {
                                cur = c;
                                let got = locate(&d2, cur.offset());
                                if got != want_next {
                                    run.findings.push(f(Prop::C08, "cursor|next-after-name-change", format!("after {} next() yields {:?} want {:?}", what, got, want_next)));
                                    return;
                                }
                            }
                        }
                    }
                }
                Err(e) => {
                    if strict && fits && !padded {
                        run.findings.push(f(Prop::C08, "unexpected-error|set_raw_name", format!("{}: {}", what, e)));
                    }
                    run.failed(cur.pp(), &before, &what);
                }
            }
        } else if op < 64 {
            // ---- TTL
            if let (Cur::R(it, _), Pos::Rec(s, i)) = (&mut cur, pos) {
                let v = run.rng.u32();
                let what = format!("  set_rr_ttl({:#x}) on {:?}{}", v, pos, if is_opt_rec { " (OPT)" } else { "" });
                run.logp(what.clone());
                run.sigs.push(format!("set_rr_ttl|{:?}|opt{}", kind, is_opt_rec as u8));
                it.set_rr_ttl(v);
                run.model.sec[s][i].ttl = v;
                run.note("ttls_set");
                if run.monitor(cur.pp(), &what).is_none() {
                    return;
                }
            }
        } else if op < 76 {
            // ---- address
            if let (Cur::R(it, _), Pos::Rec(s, i)) = (&mut cur, pos) {
                let rt = run.model.sec[s][i].rtype;
                let v4 = run.rng.chance(1, 2);
                let ip: IpAddr = if v4 { IpAddr::from([run.rng.u8(), run.rng.u8(), run.rng.u8(), run.rng.u8()]) } else { let mut a = [0u8; 16]; a.copy_from_slice(&run.rng.bytes(16)); IpAddr::from(a) };
                let what = format!("  set_rr_ip({}) on {:?} (type {})", ip, pos, rt);
                run.logp(what.clone());
                run.sigs.push(format!("set_rr_ip|t{}|v4{}", if rt == T_A || rt == T_AAAA { rt } else { 0 }, v4 as u8));
                let should_ok = (rt == T_A && v4) || (rt == T_AAAA && !v4);
                match it.set_rr_ip(&ip) {
                    Ok(()) => {
                        if !should_ok {
                            run.findings.push(f(Prop::C10, "set_rr_ip|wrong-family-accepted", what.clone()));
                            return;
                        }
                        run.model.sec[s][i].rdata = match ip {
                            IpAddr::V4(a) => RData::A(a.octets()),
                            IpAddr::V6(a) => RData::Aaaa(a.octets()),
                        };
                        run.note("ips_set");
                        if run.monitor(cur.pp(), &what).is_none() {
                            return;
                        }
                    }
                    Err(e) => {
                        if should_ok {
                            run.findings.push(f(Prop::C08, "unexpected-error|set_rr_ip", format!("{}: {}", what, e)));
                        }
                        run.failed(cur.pp(), &before, &what);
                    }
                }
            }
        } else {
            // ---- delete (and a second delete through the same cursor)
            let what = format!("  delete() on {:?}{}", pos, if is_opt_rec { " (OPT)" } else { "" });
            run.logp(what.clone());
            run.sigs.push(format!("delete|{:?}|c{}|opt{}|{}", kind, compressed as u8, is_opt_rec as u8, match pos {
                Pos::Rec(s, i) => format!("{}{}", if i == 0 { "first" } else { "" }, if i + 1 == run.model.sec[s].len() { "last" } else { "" }),
                _ => "q".into(),
            }));
            match cur.delete() {
                Ok(()) => {
                    match pos {
                        Pos::Question => {
                            run.model.question.remove(0);
                        }
                        Pos::Rec(s, i) => {
                            run.model.sec[s].remove(i);
                        }
                        Pos::Tombstone => {
                            run.findings.push(f(Prop::C10, "delete|tombstone-accepted", what.clone()));
                            return;
                        }
                        _ => {}
                    }
                    run.note("deletes_ok");
                    if run.monitor(cur.pp(), &what).is_none() {
                        return;
                    }
                    if cur.offset().is_some() {
                        run.findings.push(f(Prop::C08, "cursor|not-a-tombstone-after-delete", what.clone()));
                        return;
                    }
                    if run.rng.chance(1, 2) {
                        let after = run.model.clone();
                        let what2 = "  delete() again (tombstone)".to_string();
                        run.logp(what2.clone());
                        match cur.delete() {
                            Ok(()) => {
                                run.findings.push(f(Prop::C10, "delete|tombstone-accepted", what2));
                                return;
                            }
                            Err(_) => run.failed(cur.pp(), &after, &what2),
                        }
                    }
                }
                Err(e) => {
                    if strict && !matches!(pos, Pos::Tombstone) {
                        run.findings.push(f(Prop::C08, "unexpected-error|delete", format!("{}: {}", what, e)));
                    }
                    run.failed(cur.pp(), &before, &what);
                }
            }
        }
    }
}

/// Shared driver: run histories, route findings of `want` into the context.
pub fn drive(ctx: &mut Ctx, want: Prop, tag: &str, n: u64, mix: Mix) {
    for case in ctx.phase(tag, n) {
        if case % 512 == 0 && ctx.out_of_time() {
            break;
        }
        ctx.begin_case(case);
        let mut rng = Rng::for_case(ctx.seed, tag, 0, case);
        let r = guarded(u64::MAX / 2, || run_history(&mut rng, mix));
        ctx.evaluations += 1;
        match r {
            Err(p) => {
                // a panic inside a mutating operation: the object is broken (C08) unless the history was
                // provoking errors (C10 run): attribute to the running check
                let prop = if want == Prop::C09 { Prop::C08 } else { want };
                if prop == want || want == Prop::C09 {
                    let kind = if p.is_budget() { "non-termination" } else { "panic" };
                    let log = LIVE_LOG.with(|l| l.borrow().clone());
                    ctx.violation(want.id(), format!("history|{}|{}", kind, p.class()), format!("history {} case {}: {} ({}:{}) || history: {:?}", tag, case, p.msg, p.file, p.line, log), &[]);
                }
            }
            Ok(out) => {
                ctx.count_n("monitored_steps", out.steps as u64);
                for l in &out.log {
                    if let Some(c) = l.strip_prefix("#count ") {
                        ctx.count(c);
                    } else if let Some(s) = l.strip_prefix("#sig ") {
                        ctx.cover(s);
                    }
                }
                for fd in out.findings {
                    if fd.prop == want {
                        let log: Vec<&String> = out.log.iter().filter(|l| !l.starts_with('#')).collect();
                        ctx.violation(want.id(), fd.class, format!("{} || history: {:?}", fd.detail, log), &out.start);
                    } else {
                        ctx.count(&format!("other_property_findings:{}", fd.prop.id()));
                    }
                }
                if case < 3 {
                    let log: Vec<String> = out.log.iter().filter(|l| !l.starts_with('#')).cloned().collect();
                    ctx.sample(|| format!("{:?}", log));
                }
            }
        }
    }
}

/// Names written through a pointer into the header alias the id / flag bytes: a header setter then
/// rewrites a name. One setter on such a packet; any inconsistency is reported under one canonical
/// signature per setter (recorded as a known finding, see DESIGN.md).
pub fn header_alias_case(ctx: &mut Ctx, want: Prop, rng: &mut Rng) {
    let cfg = Cfg { max_records: 4, compress_eighths: 7, ..Default::default() };
    let v = gen_valid(rng, &cfg);
    if !v.header_target {
        return;
    }
    let mut pp = match lib_parse(&v.bytes) {
        Ok(Ok(pp)) => pp,
        _ => return,
    };
    ctx.evaluations += 1;
    ctx.count("header_alias_cases");
    let mut model = v.msg.clone();
    let which = rng.below(5);
    let name = ["set_tid", "set_flags", "set_rcode", "set_opcode", "set_response"][which];
    let r = guarded(u64::MAX / 2, || {
        match which {
            0 => {
                let x = rng.u16();
                pp.set_tid(x);
                model.id = x;
            }
            1 => {
                let x = rng.u32();
                pp.set_flags(x);
                model.flags = (model.flags & 0x780f) | (x as u16 & 0x87f0);
            }
            2 => {
                let x = rng.u8();
                pp.set_rcode(x);
                model.flags = (model.flags & !0xf) | (x & 0xf) as u16;
            }
            3 => {
                let x = rng.u8();
                pp.set_opcode(x);
                model.flags = (model.flags & !0x7800) | (((x & 0xf) as u16) << 11);
            }
            _ => {
                let x = rng.chance(1, 2);
                pp.set_response(x);
                model.flags = if x { model.flags | 0x8000 } else { model.flags & 0x7fff };
            }
        }
        match check_view(&pp) {
            Err(fd) => Some(fd.detail),
            Ok(d) => d.msg.diff(&model, false, false),
        }
    });
    ctx.cover(&format!("header-alias|{}", name));
    match r {
        Ok(None) => ctx.count("header_alias_consistent"),
        Ok(Some(detail)) => {
            if want != Prop::C10 {
                ctx.violation(want.id(), format!("header-alias|{}", name), format!("{} on a packet whose names alias header bytes: {}", name, detail), &v.bytes);
            }
        }
        Err(p) => {
            if want != Prop::C10 {
                ctx.violation(want.id(), format!("header-alias|{}", name), format!("{} on a packet whose names alias header bytes: panic {}", name, p.msg), &v.bytes);
            }
        }
    }
}

/// A name may also be written through a pointer into the TTL or the address bytes of an EARLIER record (four
/// bytes that happen to read as a name, e.g. 01 'x' 00 09 = "x."). `set_rr_ttl` / `set_rr_ip` on that record
/// then rewrite the later name as well: same family as the header aliasing above, recorded as a known finding
/// under `rdata-alias|set_rr_ttl` and `rdata-alias|set_rr_ip`.
pub fn rdata_alias_case(ctx: &mut Ctx, want: Prop, rng: &mut Rng) {
    use crate::gen::hostile::Asm;
    let via_ttl = rng.chance(1, 2);
    let c = *rng.pick(b"abcxyz");
    let mut a = Asm::header(rng.u16(), 0x8180, 1, 2, 0, 0);
    a.label(b"q").root().u16(1).u16(1);
    // first answer: q. A, with TTL or address bytes that read as the name "<c>."
    a.ptr(12).u16(T_A).u16(1);
    let ttl_at = a.pos();
    if via_ttl {
        a.raw(&[1, c, 0, rng.u8()]);
    } else {
        a.u32(rng.u32());
    }
    a.u16(4);
    let rd_at = a.pos();
    if via_ttl {
        a.raw(&[192, 0, 2, rng.u8()]);
    } else {
        a.raw(&[1, c, 0, rng.u8()]);
    }
    // second answer: owner written as a pointer into those bytes
    a.ptr(if via_ttl { ttl_at } else { rd_at }).rrfix(T_A, 7, 4).raw(&[10, 0, 0, 1]);
    let x = a.done();
    let model0 = match refparse(&x, STRICT) {
        Ok(d) => d.msg,
        Err(_) => {
            ctx.count("harness_error");
            ctx.notes.push(format!("harness: rdata-alias packet is not well-formed: {}", short(&x)));
            return;
        }
    };
    let mut pp = match lib_parse(&x) {
        Ok(Ok(pp)) => pp,
        _ => return,
    };
    ctx.evaluations += 1;
    ctx.count("rdata_alias_cases");
    let name = if via_ttl { "set_rr_ttl" } else { "set_rr_ip" };
    let mut model = model0.clone();
    let new_ttl = rng.u32();
    let new_ip = [rng.u8(), rng.u8(), rng.u8(), rng.u8()];
    if via_ttl {
        model.sec[0][0].ttl = new_ttl;
    } else {
        model.sec[0][0].rdata = RData::A(new_ip);
    }
    let r = guarded(u64::MAX / 2, || {
        {
            let mut it = pp.into_iter_answer().expect("first answer");
            if via_ttl {
                it.set_rr_ttl(new_ttl);
            } else {
                it.set_rr_ip(&std::net::IpAddr::V4(std::net::Ipv4Addr::from(new_ip))).expect("set_rr_ip on an A record");
            }
        }
        match check_view(&pp) {
            Err(fd) => Some(fd.detail),
            Ok(d) => d.msg.diff(&model, false, false),
        }
    });
    ctx.cover(&format!("rdata-alias|{}", name));
    match r {
        Ok(None) => ctx.count("rdata_alias_consistent"),
        Ok(Some(detail)) => {
            if want != Prop::C10 {
                ctx.violation(want.id(), format!("rdata-alias|{}", name), format!("{} on a record whose {} bytes a later name points into: {}", name, if via_ttl { "TTL" } else { "address" }, detail), &x);
            }
        }
        Err(p) => {
            if want != Prop::C10 {
                ctx.violation(want.id(), format!("rdata-alias|{}", name), format!("{}: panic {}", name, p.msg), &x);
            }
        }
    }
}

pub fn drive_rdata_alias(ctx: &mut Ctx, want: Prop, n: u64) {
    for case in ctx.phase("rdata-alias", n) {
        ctx.begin_case(case);
        let mut rng = Rng::for_case(ctx.seed, "rdata-alias", 0, case);
        rdata_alias_case(ctx, want, &mut rng);
    }
}

pub fn drive_header_alias(ctx: &mut Ctx, want: Prop, n: u64) {
    for case in ctx.phase("header-alias", n) {
        ctx.begin_case(case);
        let mut rng = Rng::for_case(ctx.seed, "header-alias", 0, case);
        header_alias_case(ctx, want, &mut rng);
    }
}

pub fn _unused(_: OptPos) {}

//! Coverage-guided tier: the cargo-fuzz targets call the SAME oracles as the
//! seeded workloads, on libFuzzer-mutated inputs (under AddressSanitizer).

use std::time::Instant;

use super::*;
use crate::mon::{Ctx, Slot};
use crate::prng::{hash_bytes, Rng};

pub fn light_ctx(check: &str) -> Ctx {
    Ctx {
        check: check.to_string(),
        seed: 0,
        shard: 0,
        nshards: 1,
        tier: "fuzz".into(),
        flavour: "fuzz".into(),
        scale: 1.0,
        slot: Slot::open(None),
        start: Instant::now(),
        time_cap_s: 1e9,
        only_case: None,
        only_phase: None,
        cur_phase: "fuzz".into(),
        verbose: false,
        evaluations: 0,
        distinct: Default::default(),
        distinct_extra: 0,
        counters: Default::default(),
        maxima: Default::default(),
        samples: vec![],
        violations: Default::default(),
        notes: vec![],
        cur_case: 0,
        exhaustive: false,
        timed_out: false,
        nonterm: 0,
    }
}

pub const TARGETS: &[(&str, &[&str])] = &[
    ("parse_diff", &["C01", "C02", "C18"]),
    ("roundtrip", &["C03", "C04", "C05", "C06"]),
    ("rename", &["C07"]),
    ("text", &["C13", "C14"]),
    // decision tapes: the fuzzer's bytes drive the generators of operation histories, hook scripts and walks
    ("history", &["C08", "C09", "C10"]),
    ("script", &["C15"]),
    ("walk", &["C11"]),
];

/// Run one input through the oracles of a target. With `panic_on_violation` (inside libFuzzer) a violation
/// aborts so that the input is saved as an artifact; otherwise the context is returned for inspection.
pub fn run_target(target: &str, data: &[u8], panic_on_violation: bool) -> Ctx {
    static HOOK: std::sync::Once = std::sync::Once::new();
    HOOK.call_once(crate::mon::install_panic_hook);
    let mut ctx = light_ctx(target);
    let mut rng = Rng::new(hash_bytes(data));
    match target {
        "parse_diff" => {
            c01::one(&mut ctx, &mut rng, data, "fuzz");
            c02::one(&mut ctx, data, "fuzz", None);
            #[cfg(dnssector_verif)]
            c18::one_pub(&mut ctx, data, "fuzz");
        }
        "roundtrip" => {
            c03::one(&mut ctx, data, "fuzz");
            c05::one(&mut ctx, data, "fuzz");
            if let Ok(d) = crate::model::refparse::refparse(data, crate::model::refparse::STRICT) {
                c04::one_pub(&mut ctx, data, &d.msg, data.len());
                let lit = d.msg.encode_literal();
                c06::one(&mut ctx, &lit, &d.msg, "fuzz");
            }
        }
        "rename" => {
            c07::one(&mut ctx, data, &mut rng, "fuzz");
        }
        "text" => {
            if let Ok(s) = std::str::from_utf8(data) {
                c13::oracle_c_on(&mut ctx, s);
            }
            c14::one(&mut ctx, data, &None, "fuzz");
            c14::one(&mut ctx, data, &Some(crate::model::msg::Name::from_labels(&[b"zone", b"example"])), "fuzz");
        }
        "history" => {
            use super::hist::{run_history, Mix, Prop};
            let mut trng = Rng::from_tape(data);
            // the first decision picks the mix (plain / error-provoking / near the 8192 limit)
            let mix = match trng.below(4) {
                0 => Mix { error_sixteenths: 8, max_steps: 16, big_start: false, near_limit: 0, want: Prop::C10 },
                1 => Mix { error_sixteenths: 2, max_steps: 5, big_start: false, near_limit: 8192, want: Prop::C10 },
                2 => Mix { error_sixteenths: 0, max_steps: 3, big_start: false, near_limit: 0, want: Prop::C09 },
                _ => Mix { error_sixteenths: 1, max_steps: 24, big_start: false, near_limit: 0, want: Prop::C08 },
            };
            let r = guarded(u64::MAX / 2, || run_history(&mut trng, mix));
            ctx.evaluations += 1;
            match r {
                Err(p) => {
                    let kind = if p.is_budget() { "non-termination" } else { "panic" };
                    for pid in ["C08", "C09", "C10"] {
                        ctx.violation(pid, format!("history|{}|{}", kind, p.class()), format!("fuzz history: {} ({}:{})", p.msg, p.file, p.line), data);
                    }
                }
                Ok(out) => {
                    for fd in out.findings {
                        // findings under the known-finding signatures cannot arise here (no aliasing phases)
                        ctx.violation(fd.prop.id(), fd.class, format!("{} || history: {:?}", fd.detail, out.log.iter().filter(|l| !l.starts_with('#')).collect::<Vec<_>>()), &out.start);
                    }
                }
            }
        }
        "script" => {
            use crate::gen::valid::{gen_valid, Cfg};
            let mut trng = Rng::from_tape(data);
            let cfg = Cfg {
                max_records: 6,
                types: &[crate::model::msg::T_A, crate::model::msg::T_AAAA, crate::model::msg::T_NS, crate::model::msg::T_CNAME, crate::model::msg::T_MX, crate::model::msg::T_SOA, crate::model::msg::T_TXT, crate::model::msg::T_PTR, 99],
                allow_header_targets: false,
                alphabet: 5,
                ..Default::default()
            };
            let v = gen_valid(&mut trng, &cfg);
            c15::one(&mut ctx, &mut trng, &v.bytes, 8);
        }
        "walk" => {
            let mut trng = Rng::from_tape(data);
            c11::one_from_rng(&mut ctx, &mut trng);
        }
        _ => {}
    }
    if panic_on_violation && !ctx.violations.is_empty() {
        let v = ctx.violations.values().next().unwrap();
        eprintln!("VIOLATION property={} signature={} detail={}", v.property, v.signature, v.detail);
        std::process::abort();
    }
    ctx
}

/// Seed corpus: members of the generators, so that libFuzzer starts from valid packets and texts.
pub fn dump_corpus(dir: &str, seed: u64) -> std::io::Result<usize> {
    use crate::gen::hostile::{boundary, parse_input, N_BOUNDARY};
    use crate::gen::valid::{gen_valid, Cfg};
    let mut n = 0;
    for t in ["parse_diff", "roundtrip", "rename", "text", "history", "script", "walk"] {
        std::fs::create_dir_all(format!("{}/{}", dir, t))?;
    }
    let mut put = |t: &str, b: &[u8]| -> std::io::Result<()> {
        n += 1;
        std::fs::write(format!("{}/{}/{:016x}", dir, t, hash_bytes(b)), b)
    };
    for case in 0..600u64 {
        let mut rng = Rng::for_case(seed, "corpus", 0, case);
        let v = gen_valid(&mut rng, &Cfg { max_records: 6, ..Default::default() });
        if v.bytes.len() <= 1500 {
            put("roundtrip", &v.bytes)?;
            put("rename", &v.bytes)?;
            put("parse_diff", &v.bytes)?;
        }
        let inp = parse_input(&mut rng, case);
        if inp.bytes.len() <= 1500 {
            put("parse_diff", &inp.bytes)?;
        }
        let k = (case as usize) % N_BOUNDARY;
        let b = boundary(&mut rng, k, case % 2 == 0);
        if b.bytes.len() <= 1500 {
            put("parse_diff", &b.bytes)?;
        }
        let t = crate::model::text::valid_text(&mut rng, None);
        if t.text.len() <= 600 {
            put("text", t.text.as_bytes())?;
        }
        put("text", crate::model::text::damaged_text(&mut rng).0.as_bytes())?;
        put("text", crate::model::text::name_to_text(&crate::model::text::text_name(&mut rng, 200), case % 2 == 0).as_bytes())?;
        // decision tapes: random bytes (every tape is a valid sequence of decisions)
        if case < 200 {
            let l = [256usize, 1024, 3072][(case % 3) as usize];
            put("history", &rng.bytes(l))?;
            put("script", &rng.bytes(l))?;
            put("walk", &rng.bytes(256))?;
        }
    }
    Ok(n)
}

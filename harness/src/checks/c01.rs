//! C01 — parsing untrusted bytes is total.

use dnssector::{Compress, DNSSector};

use super::*;
use crate::gen::hostile::parse_input;
use crate::model::refparse::{refparse, STRICT};
use crate::mon::runaway_budget;
use crate::prng::Rng;

const HOSTILE_OFFSETS: &[usize] = &[
    usize::MAX,
    usize::MAX - 1,
    usize::MAX / 2,
    usize::MAX / 2 + 1,
    1 << 63,
    (1 << 63) - 1,
    1 << 32,
    (1 << 32) - 1,
    65535,
    65536,
    0x3fff,
    0x4000,
];

fn offsets_for(rng: &mut Rng, len: usize) -> Vec<usize> {
    let mut v: Vec<usize> = vec![];
    if len <= 48 {
        v.extend(0..=len + 2);
    } else {
        v.extend([0, 1, 11, 12, 13, len - 2, len - 1, len, len + 1, len + 2]);
        for _ in 0..12 {
            v.push(rng.below(len));
        }
    }
    for _ in 0..3 {
        v.push(*rng.pick(HOSTILE_OFFSETS));
    }
    v
}

fn primitives(ctx: &mut Ctx, rng: &mut Rng, x: &[u8]) {
    let len = x.len();
    let offs = offsets_for(rng, len);
    // all offsets inside one guarded region; `cur` attributes a panic to its call
    let cur = std::cell::Cell::new((0u8, 0usize));
    let r = guarded(runaway_budget(len) * offs.len() as u64, || {
        let mut bad: Vec<(u8, usize, usize)> = vec![];
        let (mut ok1, mut ok2) = (0u64, 0u64);
        for &off in &offs {
            cur.set((0, off));
            if let Ok(end) = Compress::check_compressed_name(x, off) {
                ok1 += 1;
                if end > len || end <= off {
                    bad.push((0, off, end));
                }
            }
            cur.set((1, off));
            if let Ok(end) = DNSSector::check_uncompressed_name(x, off) {
                ok2 += 1;
                if end > len || end <= off {
                    bad.push((1, off, end));
                }
            }
        }
        (bad, ok1, ok2)
    });
    const FN: [&str; 2] = ["check_compressed_name", "check_uncompressed_name"];
    match r {
        Err(p) => {
            let (f, off) = cur.get();
            ctx.violation(
                "C01",
                format!("{}|{}", FN[f as usize], p.class()),
                format!("offset {} len {}: {}", off, len, p.msg),
                x,
            );
        }
        Ok((bad, ok1, ok2)) => {
            ctx.count_n("primitive_calls", 2 * offs.len() as u64);
            ctx.count_n("name_check_ok", ok1);
            ctx.count_n("uname_check_ok", ok2);
            for (f, off, end) in bad {
                ctx.violation(
                    "C01",
                    format!("{}|end-outside-buffer", FN[f as usize]),
                    format!("offset {} -> end {} len {}", off, end, len),
                    x,
                );
            }
        }
    }
    // cursor primitives: a short random walk of set_offset / increment_offset / rdlen reads
    let script: Vec<(u8, usize)> = (0..10)
        .map(|_| {
            let kind = rng.below(4) as u8;
            let arg = match rng.below(5) {
                0 => *rng.pick(HOSTILE_OFFSETS),
                1 => len,
                2 => len.wrapping_sub(1),
                3 => rng.below(len + 3),
                _ => rng.below(16),
            };
            (kind, arg)
        })
        .collect();
    let xv = x.to_vec();
    let xv2 = x.to_vec();
    let sc = script.clone();
    let r = guarded(runaway_budget(len), move || {
        let mut ds = DNSSector::new(xv).unwrap();
        let mut bad: Option<String> = None;
        let mut calls = 0u64;
        for (kind, arg) in sc {
            calls += 1;
            let before = ds.offset;
            match kind {
                0 => match ds.set_offset(arg) {
                    Err(_) => {
                        if ds.offset != before {
                            bad = Some(format!("failed set_offset({}) moved the cursor", arg));
                        }
                    }
                    Ok(_) => {
                        if ds.offset != arg {
                            bad = Some(format!("set_offset({}) left the cursor at {}", arg, ds.offset));
                        }
                    }
                },
                1 => match ds.increment_offset(arg) {
                    Err(_) => {
                        if ds.offset != before {
                            bad = Some(format!("failed increment_offset({}) moved the cursor", arg));
                        }
                    }
                    Ok(_) => {
                        // an accepted increment moves the cursor forward by exactly that much
                        if before.checked_add(arg) != Some(ds.offset) {
                            bad = Some(format!("increment_offset({}) from {} left the cursor at {}", arg, before, ds.offset));
                        }
                    }
                },
                2 => {
                    let _ = ds.rr_rdlen();
                }
                _ => {
                    let _ = ds.edns_rr_rdlen();
                }
            }
            if ds.offset > ds.packet.len() {
                bad = Some(format!(
                    "cursor {} beyond the buffer ({} bytes) after op {} arg {}",
                    ds.offset,
                    ds.packet.len(),
                    kind,
                    arg
                ));
            }
            if bad.is_some() {
                break;
            }
        }
        // whatever the cursor was asked to do, the sector still holds exactly the input bytes and gives them back
        if bad.is_none() {
            let back = ds.into_packet();
            if back != xv2 {
                bad = Some("into_packet() after cursor calls does not give back the input bytes".into());
            }
        }
        (bad, calls)
    });
    match r {
        Err(p) => ctx.violation(
            "C01",
            format!("cursor-primitives|{}", p.class()),
            format!("script {:?}: {}", script, p.msg),
            x,
        ),
        Ok((Some(bad), _)) => ctx.violation(
            "C01",
            "cursor-primitives|invariant".into(),
            format!("script {:?}: {}", script, bad),
            x,
        ),
        Ok((None, calls)) => ctx.count_n("primitive_calls", calls),
    }
}

pub fn one(ctx: &mut Ctx, rng: &mut Rng, x: &[u8], family: &str) {
    ctx.evaluations += 1;
    ctx.count(&format!("family:{}", family));
    let verdict;
    match lib_parse(x) {
        Err(p) => {
            verdict = "panic";
            let kind = if p.is_budget() { "non-termination" } else { "panic" };
            ctx.violation(
                "C01",
                format!("parse|{}|{}", kind, p.class()),
                format!("family {}: {} ({}:{})", family, p.msg, p.file, p.line),
                x,
            );
        }
        Ok(Ok(pp)) => {
            verdict = "ok";
            ctx.count("parse_ok");
            if pp.packet() != x {
                ctx.violation(
                    "C01",
                    "parse|bytes-changed".into(),
                    format!("family {}: accepted packet no longer holds the input bytes", family),
                    x,
                );
            }
        }
        Ok(Err(_)) => {
            verdict = "err";
            ctx.count("parse_err");
        }
    }
    // coverage signature: verdict x reference clause x shape
    let sig = match refparse(x, STRICT) {
        Ok(d) => {
            let mut types: Vec<u16> = d.msg.sec.iter().flatten().map(|r| r.rtype).collect();
            types.sort();
            types.dedup();
            format!(
                "{}|accept|{:?}|ch{}|len{}",
                verdict,
                types,
                d.layout.max_chain.min(17),
                x.len().next_power_of_two()
            )
        }
        Err(r) => format!(
            "{}|{}|{}|len{}",
            verdict,
            r.clause.as_str(),
            r.name_err.map(|e| e.as_str()).unwrap_or("-"),
            x.len().next_power_of_two()
        ),
    };
    if x.len() >= 12 {
        ctx.cover(&sig);
    }
    if rng.chance(1, 3) {
        primitives(ctx, rng, x);
    }
    ctx.sample(|| format!("{} [{}] {}", family, verdict, short(x)));
}

pub fn run(ctx: &mut Ctx) {
    let n = ctx.scaled(if ctx.tier == "thorough" { 40_000_000 } else { 1_600_000 });
    for case in ctx.phase("parse", n) {
        if case % 4096 == 0 && ctx.out_of_time() {
            break;
        }
        ctx.begin_case(case);
        let mut rng = Rng::for_case(ctx.seed, "parse", 0, case);
        let inp = parse_input(&mut rng, case);
        one(ctx, &mut rng, &inp.bytes, inp.family);
    }
    // small random buffers aimed at the name checkers alone
    let m = ctx.scaled(if ctx.tier == "thorough" { 20_000_000 } else { 600_000 });
    for case in ctx.phase("names", m) {
        if case % 4096 == 0 && ctx.out_of_time() {
            break;
        }
        ctx.begin_case(case);
        let mut rng = Rng::for_case(ctx.seed, "names", 0, case);
        let len = rng.range(0, 24);
        let x: Vec<u8> = (0..len)
            .map(|_| *rng.pick(&[0u8, 1, 2, 3, 0xc0, 0xc0, 0xc1, 0x3f, 0x40, 0xff, b'a', b'.', 4, 5, 6, 8, 10, 12]))
            .collect();
        ctx.evaluations += 1;
        primitives(ctx, &mut rng, &x);
    }
}

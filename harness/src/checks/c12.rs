//! C12 — header setters touch only their own bits; getters return what was set.

use dnssector::*;

use super::*;
use crate::gen::hostile::Asm;
use crate::model::msg::*;
use crate::prng::Rng;

fn body(variant: usize) -> Vec<u8> {
    // legal for every flag word: additional records only
    let mut a = Asm::header(0x1234, 0, 1, 0, 0, if variant % 2 == 0 { 1 } else { 2 });
    a.label(b"q").root().u16(1).u16(1);
    a.ptr(12).rrfix(T_A, 5, 4).raw(&[1, 2, 3, 4]);
    if variant % 2 == 1 {
        // variant 3 carries a non-zero extended rcode and version: getters must not mix them into header fields
        a.root().u16(T_OPT).u16(4096).u32(if variant == 3 { 0xa5c3_8001 } else { 0x0000_8001 ^ ((variant as u32) << 8) }).u16(0);
    }
    a.done()
}

struct State {
    pp: ParsedPacket,
    rest: Vec<u8>,
    ext: u32,
}

const NSTATES: usize = 6;

fn mk(variant: usize) -> Option<State> {
    // objects that never went through the parser: the 12-byte header-only packet of ParsedPacket::empty() and a
    // synthesised query
    if variant == 4 {
        let pp = ParsedPacket::empty();
        return Some(State { rest: pp.packet()[12..].to_vec(), pp, ext: 0 });
    }
    if variant == 5 {
        let pp = r#gen::query(b"example.com", Type::A, Class::IN).ok()?;
        let ext = (pp.ext_flags.unwrap_or(0) as u32) << 16;
        return Some(State { rest: pp.packet()[12..].to_vec(), pp, ext });
    }
    let b = body(variant);
    let pp = lib_parse(&b).ok()?.ok()?;
    let ext = (pp.ext_flags.unwrap_or(0) as u32) << 16;
    Some(State { rest: b[12..].to_vec(), pp, ext })
}

#[derive(Clone, Copy, Debug)]
enum Op {
    Opcode(u8),
    Rcode(u8),
    Response(bool),
    Tid(u16),
    Flags(u32),
}

/// Apply one setter to a header whose flag word is `w`; compare with the bit model.
fn apply(st: &mut State, w: u16, id: u16, op: Op) -> Result<(), String> {
    {
        let p = st.pp.packet_mut();
        p[0..2].copy_from_slice(&id.to_be_bytes());
        p[2..4].copy_from_slice(&w.to_be_bytes());
    }
    let counts: [u8; 8] = st.pp.packet()[4..12].try_into().unwrap();
    let (mut want_w, mut want_id) = (w, id);
    match op {
        Op::Opcode(a) => {
            st.pp.set_opcode(a);
            want_w = (w & !0x7800) | (((a & 0x0f) as u16) << 11);
        }
        Op::Rcode(a) => {
            st.pp.set_rcode(a);
            want_w = (w & !0x000f) | (a & 0x0f) as u16;
        }
        Op::Response(b) => {
            st.pp.set_response(b);
            want_w = if b { w | 0x8000 } else { w & 0x7fff };
            // the static form of the same setter, on a bare 12-byte header and on a whole packet
            let mut hdr = [0u8; 12];
            hdr[0..2].copy_from_slice(&id.to_be_bytes());
            hdr[2..4].copy_from_slice(&w.to_be_bytes());
            hdr[4..12].copy_from_slice(&counts);
            let mut whole: Vec<u8> = hdr.to_vec();
            whole.extend_from_slice(&st.rest);
            DNSSector::set_response(&mut hdr, b);
            DNSSector::set_response(&mut whole, b);
            let mut exp = [0u8; 12];
            exp[0..2].copy_from_slice(&id.to_be_bytes());
            exp[2..4].copy_from_slice(&want_w.to_be_bytes());
            exp[4..12].copy_from_slice(&counts);
            if hdr != exp || whole[..12] != exp || whole[12..] != st.rest[..] {
                return Err(format!("DNSSector::set_response({}) on header word {:#06x}: header {:02x?}, want {:02x?}", b, w, &hdr[..4], &exp[..4]));
            }
        }
        Op::Tid(t) => {
            st.pp.set_tid(t);
            want_id = t;
        }
        Op::Flags(a) => {
            st.pp.set_flags(a);
            want_w = (w & 0x780f) | (a as u16 & 0x87f0);
        }
    }
    let p = st.pp.packet();
    let got_id = u16::from_be_bytes([p[0], p[1]]);
    let got_w = u16::from_be_bytes([p[2], p[3]]);
    if got_w != want_w {
        return Err(format!("flag word {:#06x} after {:?} on {:#06x}, want {:#06x}", got_w, op, w, want_w));
    }
    if got_id != want_id {
        return Err(format!("id {:#06x} after {:?}, want {:#06x}", got_id, op, want_id));
    }
    if p[4..12] != counts || p[12..] != st.rest[..] {
        return Err(format!("{:?} changed bytes outside the id/flag word", op));
    }
    // getters return the stored value, truncated to the field's width
    let ok = st.pp.tid() == want_id
        && st.pp.opcode() == ((want_w >> 11) & 0xf) as u8
        && st.pp.rcode() == (want_w & 0xf) as u8
        && st.pp.is_response() == (want_w & 0x8000 != 0)
        && st.pp.flags() == (st.ext | (want_w & 0x87f0) as u32);
    if !ok {
        return Err(format!(
            "getters after {:?} on {:#06x}: tid {:#x} opcode {} rcode {} qr {} flags {:#x}; header word {:#06x}",
            op, w, st.pp.tid(), st.pp.opcode(), st.pp.rcode(), st.pp.is_response(), st.pp.flags(), want_w
        ));
    }
    Ok(())
}

fn opname(op: &Op) -> &'static str {
    match op {
        Op::Opcode(_) => "set_opcode",
        Op::Rcode(_) => "set_rcode",
        Op::Response(_) => "set_response",
        Op::Tid(_) => "set_tid",
        Op::Flags(_) => "set_flags",
    }
}

fn run_ops(ctx: &mut Ctx, st: &mut State, w: u16, id: u16, ops: &mut dyn Iterator<Item = Op>) {
    let mut first_err: Option<(Op, String)> = None;
    let mut n = 0u64;
    let r = guarded(u64::MAX - 1, || {
        for op in ops {
            n += 1;
            if let Err(e) = apply(st, w, id, op) {
                if first_err.is_none() {
                    first_err = Some((op, e));
                }
            }
        }
    });
    ctx.evaluations += n;
    if let Err(p) = r {
        ctx.violation("C12", format!("setter|{}", p.class()), format!("word {:#06x}: {}", w, p.msg), &w.to_be_bytes());
    }
    if let Some((op, e)) = first_err {
        ctx.violation("C12", format!("{}|wrong-bits", opname(&op)), e, &w.to_be_bytes());
    }
}

pub fn run(ctx: &mut Ctx) {
    let thorough = ctx.tier == "thorough";
    let mut states: Vec<State> = (0..NSTATES).filter_map(mk).collect();
    if states.len() != NSTATES {
        ctx.count("harness_error");
        ctx.notes.push("harness: C12 body not accepted by the parser".into());
        return;
    }
    // 1. every flag word x every argument of set_opcode / set_rcode / set_response (exhaustive)
    for w in ctx.phase("word-x-arg8", 65536) {
        ctx.begin_case(w);
        let w = w as u16;
        let st = &mut states[(w as usize) % NSTATES];
        let id = w.rotate_left(5) ^ 0x5aa5;
        let mut ops = (0..=255u8)
            .map(Op::Opcode)
            .chain((0..=255u8).map(Op::Rcode))
            .chain([Op::Response(true), Op::Response(false)]);
        run_ops(ctx, st, w, id, &mut ops);
        ctx.count_n("distinct_word_setter_pairs", 3);
    }
    // 2. every flag word x set_flags with all 32 single-bit arguments, extremes, and random arguments;
    //    thorough: every flag word x every 16-bit low half (exhaustive over the significant bits)
    for w in ctx.phase("word-x-flags", 65536) {
        if w % 512 == 0 && ctx.out_of_time() {
            break;
        }
        ctx.begin_case(w);
        let mut rng = Rng::for_case(ctx.seed, "c12-flags", 0, w);
        let w = w as u16;
        let st = &mut states[(w as usize) % NSTATES];
        let id = !w;
        let singles = (0..32).map(|b| Op::Flags(1u32 << b));
        let extremes = [0u32, u32::MAX, 0xffff_0000, 0x0000_ffff, 0x87f0, 0x780f, 0x8000_0000, 0x7fff_ffff]
            .into_iter()
            .map(Op::Flags);
        let nrand = if thorough { 0 } else { 512 };
        let rands: Vec<Op> = (0..nrand).map(|_| Op::Flags(rng.u32())).collect();
        let mut ops = singles.chain(extremes).chain(rands.into_iter());
        run_ops(ctx, st, w, id, &mut ops);
        if thorough {
            let hi = (rng.u32() & 0xffff_0000) | 0;
            let mut all = (0..=0xffffu32).map(|lo| Op::Flags(hi | lo));
            run_ops(ctx, st, w, id, &mut all);
        }
        ctx.count_n("distinct_word_setter_pairs", 1);
    }
    // 3. every 16-bit low half of the set_flags argument x 64 flag words (quick tier's view of that axis)
    for lo in ctx.phase("arg16-x-words", 65536) {
        ctx.begin_case(lo);
        let mut rng = Rng::for_case(ctx.seed, "c12-lo", 0, lo);
        let words: Vec<u16> = (0..64).map(|i| if i < 16 { 1u16 << i } else { rng.u16() }).collect();
        for w in words {
            let st = &mut states[(w as usize) % NSTATES];
            let hi = rng.u32() & 0xffff_0000;
            let mut ops = [Op::Flags(hi | lo as u32)].into_iter();
            run_ops(ctx, st, w, 0x0f0f, &mut ops);
        }
    }
    // 4. every transaction id x 64 header words
    for t in ctx.phase("tid-x-words", 65536) {
        ctx.begin_case(t);
        let mut rng = Rng::for_case(ctx.seed, "c12-tid", 0, t);
        for _ in 0..64 {
            let w = rng.u16();
            let id = rng.u16();
            let st = &mut states[(w as usize) % NSTATES];
            let mut ops = [Op::Tid(t as u16)].into_iter();
            run_ops(ctx, st, w, id, &mut ops);
        }
        ctx.count_n("distinct_word_setter_pairs", 1);
    }
    // 4b. the same setters and getters reached through the exported C function table
    {
        let t = crate::capi::raw_table();
        for w in ctx.phase("via-table", 65536) {
            ctx.begin_case(w);
            let w = w as u16;
            let st = &mut states[(w as usize) % NSTATES];
            let mut bad: Option<String> = None;
            let mut n = 0u64;
            for a in [0u8, 1, 4, 5, 9, 15, 16, 0x83, 0xff, (w >> 3) as u8] {
                for which in 0..3 {
                    n += 1;
                    {
                        let p = st.pp.packet_mut();
                        p[2..4].copy_from_slice(&w.to_be_bytes());
                    }
                    let want = match which {
                        0 => (w & !0x7800) | (((a & 0x0f) as u16) << 11),
                        1 => (w & !0x000f) | (a & 0x0f) as u16,
                        _ => (w & 0x780f) | ((a as u16) << 4 & 0x87f0),
                    };
                    let (got_w, g_op, g_rc, g_fl) = unsafe {
                        let ppp: *mut ParsedPacket = &mut st.pp;
                        match which {
                            0 => t.call_set_opcode(ppp, a),
                            1 => t.call_set_rcode(ppp, a),
                            _ => t.call_set_flags(ppp, (a as u32) << 4 | 0xabcd_0000),
                        }
                        let p = (*ppp).packet();
                        (u16::from_be_bytes([p[2], p[3]]), t.call_opcode(ppp), t.call_rcode(ppp), t.call_flags(ppp))
                    };
                    let ok = got_w == want && g_op == ((want >> 11) & 0xf) as u8 && g_rc == (want & 0xf) as u8 && g_fl == (st.ext | (want & 0x87f0) as u32);
                    if !ok && bad.is_none() {
                        bad = Some(format!("table setter {} with {:#x} on word {:#06x}: word {:#06x} (want {:#06x}), opcode {} rcode {} flags {:#x}", ["set_opcode", "set_rcode", "set_flags"][which], a, w, got_w, want, g_op, g_rc, g_fl));
                    }
                }
            }
            ctx.evaluations += n;
            ctx.count_n("via_table_calls", n);
            if let Some(b) = bad {
                ctx.violation("C12", "via-table|wrong-bits".into(), b, &w.to_be_bytes());
            }
        }
    }
    // 5. setter sequences on one object: getters must track the last value set
    let n = ctx.scaled(if thorough { 2_000_000 } else { 100_000 });
    for case in ctx.phase("sequences", n) {
        ctx.begin_case(case);
        let mut rng = Rng::for_case(ctx.seed, "c12-seq", 0, case);
        let st = &mut states[rng.below(4)];
        let mut w = rng.u16();
        let mut id = rng.u16();
        for _ in 0..12 {
            let op = match rng.below(5) {
                0 => Op::Opcode(rng.u8()),
                1 => Op::Rcode(rng.u8()),
                2 => Op::Response(rng.chance(1, 2)),
                3 => Op::Tid(rng.u16()),
                _ => Op::Flags(rng.u32()),
            };
            let mut ops = [op].into_iter();
            run_ops(ctx, st, w, id, &mut ops);
            // continue from the state the library produced
            let p = st.pp.packet();
            id = u16::from_be_bytes([p[0], p[1]]);
            w = u16::from_be_bytes([p[2], p[3]]);
        }
        ctx.cover(&format!("seq|{}", case % 4096));
    }
    ctx.distinct_extra += ctx.counters.get("distinct_word_setter_pairs").copied().unwrap_or(0);
    ctx.sample(|| "set_opcode(0..=255), set_rcode(0..=255), set_response(true|false) on every flag word 0x0000..=0xffff".to_string());
    ctx.sample(|| "set_flags(1<<b for b in 0..32, 0, 0xffffffff, 0xffff0000, ...) on every flag word; set_flags(hi|lo) for every lo in 0..=0xffff on 64 words".to_string());
    if ctx.only_case.is_none() && ctx.only_phase.is_none() {
        ctx.exhaustive = thorough && !ctx.timed_out;
    }
}

//! C09 — each mutation has exactly its stated effect; the rest is untouched.
use super::hist::*;
use super::*;

pub fn run(ctx: &mut Ctx) {
    let n = ctx.scaled(if ctx.tier == "thorough" { 6_000_000 } else { 200_000 });
    drive(ctx, Prop::C09, "hist", n, Mix { error_sixteenths: 1, max_steps: 24, big_start: false, near_limit: 0, want: Prop::C09 });
    let n = ctx.scaled(if ctx.tier == "thorough" { 1_500_000 } else { 50_000 });
    drive(ctx, Prop::C09, "hist-short", n, Mix { error_sixteenths: 0, max_steps: 3, big_start: false, near_limit: 0, want: Prop::C09 });
    let n = ctx.scaled(if ctx.tier == "thorough" { 400_000 } else { 40_000 });
    drive_header_alias(ctx, Prop::C09, n);
    drive_rdata_alias(ctx, Prop::C09, ctx.scaled(2_000));
}

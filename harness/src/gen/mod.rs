pub mod hostile;
pub mod valid;

//! G-hostile and G-boundary: structure-aware damage of valid packets, and
//! explicit last-legal / first-illegal constructions for every clause of the
//! acceptance policy. Boundary cases carry the verdict that holds *by
//! construction*, which is checked against both the library and refparse.

use crate::gen::valid::*;
use crate::model::msg::*;
use crate::model::refparse::*;
use crate::prng::Rng;

pub struct Input {
    pub bytes: Vec<u8>,
    pub family: &'static str,
    /// verdict known by construction, when there is one
    pub expect: Option<bool>,
}

// ---------------------------------------------------------------------------
// tiny assembler

#[derive(Default, Clone)]
pub struct Asm {
    pub b: Vec<u8>,
}

impl Asm {
    pub fn header(id: u16, flags: u16, qd: u16, an: u16, ns: u16, ar: u16) -> Asm {
        let mut a = Asm::default();
        for v in [id, flags, qd, an, ns, ar] {
            a.b.extend_from_slice(&v.to_be_bytes());
        }
        a
    }
    pub fn pos(&self) -> usize {
        self.b.len()
    }
    pub fn raw(&mut self, d: &[u8]) -> &mut Self {
        self.b.extend_from_slice(d);
        self
    }
    pub fn u16(&mut self, v: u16) -> &mut Self {
        self.b.extend_from_slice(&v.to_be_bytes());
        self
    }
    pub fn u32(&mut self, v: u32) -> &mut Self {
        self.b.extend_from_slice(&v.to_be_bytes());
        self
    }
    pub fn label(&mut self, l: &[u8]) -> &mut Self {
        self.b.push(l.len() as u8);
        self.b.extend_from_slice(l);
        self
    }
    pub fn name(&mut self, n: &Name) -> &mut Self {
        n.write_wire(&mut self.b);
        self
    }
    pub fn ptr(&mut self, to: usize) -> &mut Self {
        self.b.push(0xc0 | (to >> 8) as u8);
        self.b.push(to as u8);
        self
    }
    pub fn root(&mut self) -> &mut Self {
        self.b.push(0);
        self
    }
    /// question "q." IN A at offset 12 (label start 12, root at 14)
    pub fn question_q(&mut self) -> &mut Self {
        self.label(b"q").root().u16(1).u16(1)
    }
    /// fixed part of a record after its owner name
    pub fn rrfix(&mut self, rtype: u16, ttl: u32, rdlen: u16) -> &mut Self {
        self.u16(rtype).u16(1).u32(ttl).u16(rdlen)
    }
    pub fn done(&self) -> Vec<u8> {
        self.b.clone()
    }
}

fn resp(an: u16, ns: u16, ar: u16) -> Asm {
    let mut a = Asm::header(0x1234, 0x8180, 1, an, ns, ar);
    a.question_q();
    a
}

// ---------------------------------------------------------------------------
// boundary families

pub const N_BOUNDARY: usize = 56;

/// Build boundary case number `k` (0..N_BOUNDARY), side `legal`.
pub fn boundary(rng: &mut Rng, k: usize, legal: bool) -> Input {
    let inp = |bytes: Vec<u8>, family: &'static str, expect: bool| Input {
        bytes,
        family,
        expect: Some(expect),
    };
    match k {
        0 => {
            // label of 63 / 64 bytes
            let mut a = resp(1, 0, 0);
            let l = if legal { 63 } else { 64 };
            a.b.push(l as u8);
            a.raw(&vec![b'x'; l]).root().rrfix(T_A, 1, 4).raw(&[1, 2, 3, 4]);
            inp(a.done(), "label-63/64", legal)
        }
        1 => {
            // literal owner name of 255 / 256 bytes
            let mut a = resp(1, 0, 0);
            if legal {
                let n = if rng.chance(1, 2) {
                    name_of_wire_len(rng, 255)
                } else {
                    Name(vec![vec![b'a'; 63], vec![b'b'; 63], vec![b'c'; 63], vec![b'd'; 61]])
                };
                a.name(&n);
            } else {
                a.name(&Name(vec![vec![b'a'; 63], vec![b'b'; 63], vec![b'c'; 63], vec![b'd'; 62]]));
            }
            a.rrfix(T_A, 1, 4).raw(&[1, 2, 3, 4]);
            inp(a.done(), "name-255/256-literal", legal)
        }
        2 => {
            // expanded length 255 / 256 reached through a pointer
            let tail = name_of_wire_len(rng, 200);
            let mut a = resp(2, 0, 0);
            let t = a.pos();
            a.name(&tail).rrfix(T_A, 1, 4).raw(&[1, 2, 3, 4]);
            // second owner: fresh labels + pointer to tail; fresh wire = 55 (legal) or 56
            let fresh = if legal { 54 } else { 55 };
            a.label(&vec![b'f'; fresh]).ptr(t);
            a.rrfix(T_A, 1, 4).raw(&[1, 2, 3, 4]);
            inp(a.done(), "name-255/256-pointer", legal)
        }
        3 => {
            // 16 / 17 indirections
            let hops = if legal { 16 } else { 17 };
            let mut a = resp(1 + hops as u16, 0, 0);
            let mut prev = a.pos();
            a.label(b"z").root().rrfix(T_A, 1, 4).raw(&[9, 9, 9, 9]);
            // each following record's owner is a bare pointer to the previous owner
            for _ in 0..hops {
                let here = a.pos();
                a.ptr(prev).rrfix(T_A, 1, 4).raw(&[1, 1, 1, 1]);
                prev = here;
            }
            inp(a.done(), "indirections-16/17", legal)
        }
        4 => {
            // pointer to an earlier name / to itself
            let mut a = resp(1, 0, 0);
            let here = a.pos();
            a.ptr(if legal { 12 } else { here });
            a.rrfix(T_A, 1, 4).raw(&[1, 2, 3, 4]);
            inp(a.done(), "pointer-self", legal)
        }
        5 => {
            // pointer backward / forward (to the next record's owner)
            let mut a = resp(2, 0, 0);
            let here = a.pos();
            a.ptr(if legal { 12 } else { here + 2 + 10 + 4 });
            a.rrfix(T_A, 1, 4).raw(&[1, 2, 3, 4]);
            a.label(b"fwd").root().rrfix(T_A, 1, 4).raw(&[1, 2, 3, 4]);
            inp(a.done(), "pointer-forward", legal)
        }
        6 => {
            // labels then pointer into (legal) an earlier name / (illegal) the start of its own name
            let mut a = resp(1, 0, 0);
            let here = a.pos();
            a.label(b"own").ptr(if legal { 12 } else { here });
            a.rrfix(T_A, 1, 4).raw(&[1, 2, 3, 4]);
            inp(a.done(), "pointer-own-segment", legal)
        }
        7 => {
            // pointer to a label / to a root byte (offset 14 is the question's root)
            let mut a = resp(1, 0, 0);
            a.ptr(if legal { 12 } else { 14 });
            a.rrfix(T_A, 1, 4).raw(&[1, 2, 3, 4]);
            inp(a.done(), "pointer-to-root", legal)
        }
        8 => {
            // second-level segment must stay below the first segment's start:
            // rec1 owner "aa.bb." ; rec2 owner -> ptr into "bb." (legal) ;
            // illegal: rec1 rdata holds a name "cc" + ptr back to rec1 owner, rec2 owner points to a
            // label in rec1 rdata whose continuation would run across rec2's ... use straddle:
            // name N2 = ptr -> X where X's run contains a pointer to Y >= X (forward inside earlier data)
            let mut a = resp(2, 0, 0);
            let o1 = a.pos();
            a.label(b"aa").label(b"bb").root();
            // rdata of an opaque type holding crafted bytes: label "cc" then pointer
            let crafted_target = if legal { o1 + 3 } else { a.pos() + 10 };
            a.rrfix(T_TXT, 1, 5);
            let x = a.pos();
            a.label(b"cc").ptr(crafted_target);
            // rec2 owner: pointer to x. legal: x's pointer goes to o1+3 < x. illegal: x's pointer -> x itself
            a.ptr(x).rrfix(T_A, 1, 4).raw(&[1, 2, 3, 4]);
            inp(a.done(), "pointer-chain-not-descending", legal)
        }
        9 => {
            // pointer whose second byte is the last byte of the packet (legal needs more data after)
            // owner name of the last record is a pointer; truncate right after first pointer byte
            let mut a = resp(1, 0, 0);
            a.ptr(12).rrfix(T_A, 1, 4).raw(&[1, 2, 3, 4]);
            let mut b = a.done();
            if !legal {
                b.truncate(19 + 1);
            }
            inp(b, "pointer-truncated", legal)
        }
        10 | 11 | 12 => {
            // NS / CNAME / PTR rdata filled exactly by the name vs. rdlen one short / one long
            let t = [T_NS, T_CNAME, T_PTR][k - 10];
            let n = gen_name(rng, &Cfg::default(), 60);
            let wl = n.wire_len() as u16;
            let d = if legal { 0i32 } else if rng.chance(1, 2) { 1 } else { -1 };
            let mut a = resp(1, 0, 0);
            a.ptr(12).rrfix(t, 7, (wl as i32 + d) as u16).name(&n);
            if d > 0 {
                a.raw(&[0]);
            }
            inp(a.done(), "name-rdata-exact", legal)
        }
        13 => {
            // MX rdlen: pref + name exactly / rdlen 2 (no name)
            let mut a = resp(1, 0, 0);
            if legal {
                a.ptr(12).rrfix(T_MX, 7, 3).u16(10).root();
            } else {
                a.ptr(12).rrfix(T_MX, 7, 2).u16(10);
            }
            inp(a.done(), "mx-rdlen-3/2", legal)
        }
        14 => {
            // MX with compressed exchange, rdlen exact / one long
            let mut a = resp(1, 0, 0);
            a.ptr(12).rrfix(T_MX, 7, if legal { 4 } else { 5 }).u16(10).ptr(12);
            if !legal {
                a.raw(&[0]);
            }
            inp(a.done(), "mx-rdlen-exact", legal)
        }
        15 => {
            // SOA minimal: two root names + 20 bytes = 22 / 21 (one metadata byte missing)
            let mut a = resp(0, 1, 0);
            if legal {
                a.ptr(12).rrfix(T_SOA, 7, 22).root().root().raw(&[7u8; 20]);
            } else {
                a.ptr(12).rrfix(T_SOA, 7, 21).root().root().raw(&[7u8; 19]);
            }
            inp(a.done(), "soa-rdlen-22/21", legal)
        }
        16 => {
            // SOA with names, rdlen exact / off by one
            let n1 = gen_name(rng, &Cfg::default(), 40);
            let n2 = gen_name(rng, &Cfg::default(), 40);
            let l = (n1.wire_len() + n2.wire_len() + 20) as i32;
            let d = if legal { 0 } else if rng.chance(1, 2) { 1 } else { -1 };
            let mut a = resp(0, 1, 0);
            a.ptr(12).rrfix(T_SOA, 7, (l + d) as u16).name(&n1).name(&n2).raw(&[3u8; 20]);
            if d > 0 {
                a.raw(&[0]);
            }
            if d < 0 {
                a.b.pop();
            }
            inp(a.done(), "soa-rdlen-exact", legal)
        }
        17 => {
            // A rdlen 4 / 3 or 5
            let mut a = resp(1, 0, 0);
            let l = if legal { 4 } else { *rng.pick(&[3usize, 5, 0, 16]) };
            a.ptr(12).rrfix(T_A, 7, l as u16).raw(&vec![1u8; l]);
            inp(a.done(), "a-rdlen", legal)
        }
        18 => {
            let mut a = resp(1, 0, 0);
            let l = if legal { 16 } else { *rng.pick(&[15usize, 17, 4, 0]) };
            a.ptr(12).rrfix(T_AAAA, 7, l as u16).raw(&vec![1u8; l]);
            inp(a.done(), "aaaa-rdlen", legal)
        }
        19 => {
            // DNAME target literal / containing a pointer
            let mut a = resp(1, 0, 0);
            if legal {
                a.ptr(12).rrfix(T_DNAME, 7, 6).label(&[0x00, b'.', b'\\', 0xff]).root();
            } else {
                a.ptr(12).rrfix(T_DNAME, 7, 2).ptr(12);
            }
            inp(a.done(), "dname-pointer", legal)
        }
        20 => {
            // OPT in additional / in answer or authority
            let mut a = if legal {
                resp(0, 0, 1)
            } else if rng.chance(1, 2) {
                resp(1, 0, 0)
            } else {
                resp(0, 1, 0)
            };
            a.root().u16(T_OPT).u16(4096).u32(0).u16(0);
            inp(a.done(), "opt-section", legal)
        }
        21 => {
            // OPT owner root / one label / pointer
            let mut a = resp(0, 0, 1);
            if legal {
                a.root();
            } else if rng.chance(1, 2) {
                a.label(b"o").root();
            } else {
                a.ptr(12);
            }
            a.u16(T_OPT).u16(4096).u32(0).u16(0);
            inp(a.done(), "opt-owner", legal)
        }
        22 => {
            // one OPT (+ an A) / two OPTs
            let mut a = resp(0, 0, 2);
            a.root().u16(T_OPT).u16(4096).u32(0).u16(0);
            if legal {
                a.ptr(12).rrfix(T_A, 1, 4).raw(&[1, 2, 3, 4]);
            } else {
                a.root().u16(T_OPT).u16(1232).u32(0).u16(0);
            }
            inp(a.done(), "opt-duplicate", legal)
        }
        23 => {
            // options tile rdata exactly / last option one byte short or long
            let mut a = resp(0, 0, 1);
            let d = if legal { 0i32 } else if rng.chance(1, 2) { 1 } else { -1 };
            a.root().u16(T_OPT).u16(4096).u32(0).u16((4 + 3 + 4 + 0 + d) as u16);
            a.u16(8).u16(3).raw(&[1, 2, 3]).u16(12).u16(0);
            if d > 0 {
                a.raw(&[0]);
            }
            if d < 0 {
                a.b.pop();
            }
            inp(a.done(), "opt-tiling", legal)
        }
        24 => {
            // option length field overruns the OPT rdata while bytes exist after it in the packet
            let mut a = resp(0, 0, 2);
            a.root().u16(T_OPT).u16(4096).u32(0).u16(6);
            a.u16(8).u16(if legal { 2 } else { 3 }).raw(&[1, 2]);
            a.ptr(12).rrfix(T_A, 1, 4).raw(&[1, 2, 3, 4]);
            inp(a.done(), "opt-option-overrun-into-next-record", legal)
        }
        25 => {
            // OPT rdlen reaching exactly the end / one past the end of the packet
            let mut a = resp(0, 0, 1);
            a.root().u16(T_OPT).u16(4096).u32(0).u16(if legal { 4 } else { 5 });
            a.u16(8).u16(0);
            inp(a.done(), "opt-rdlen-overrun", legal)
        }
        26 => {
            // nothing / one byte after the last record
            let mut a = resp(1, 0, 0);
            a.ptr(12).rrfix(T_A, 1, 4).raw(&[1, 2, 3, 4]);
            if !legal {
                a.raw(&[rng.u8()]);
            }
            inp(a.done(), "trailing-byte", legal)
        }
        27 => {
            // qdcount 1 / 0 / 2
            let qd = if legal { 1 } else { *rng.pick(&[0u16, 2, 2, 65535]) };
            let mut a = Asm::header(1, 0x0100, qd, 0, 0, 0);
            if qd >= 1 {
                a.question_q();
            }
            if qd >= 2 && rng.chance(1, 2) {
                a.question_q();
            }
            inp(a.done(), "qdcount", legal)
        }
        28 => {
            // question class IN / other
            let mut a = Asm::header(1, 0x0100, 1, 0, 0, 0);
            a.label(b"q").root().u16(1).u16(if legal { 1 } else { *rng.pick(&[3u16, 4, 255, 0, 254]) });
            inp(a.done(), "question-class", legal)
        }
        29 => {
            // answers / authority in a response vs in a query
            let flags = if legal { 0x8000 } else { 0x0000 };
            let (an, ns) = if rng.chance(1, 2) { (1, 0) } else { (0, 1) };
            let mut a = Asm::header(1, flags | 0x0100, 1, an, ns, 0);
            a.question_q();
            a.ptr(12).rrfix(T_A, 1, 4).raw(&[1, 2, 3, 4]);
            inp(a.done(), "qr-gating", legal)
        }
        30 => {
            // additional records are allowed in a query
            let mut a = Asm::header(1, 0x0100, 1, 0, 0, 1);
            a.question_q();
            a.ptr(12).rrfix(T_A, 1, 4).raw(&[1, 2, 3, 4]);
            if !legal {
                // ...but the count must not lie
                a.b[11] = 2;
            }
            inp(a.done(), "count-lies-high", legal)
        }
        31 => {
            // count lies low: one more record than announced
            let mut a = resp(if legal { 2 } else { 1 }, 0, 0);
            a.ptr(12).rrfix(T_A, 1, 4).raw(&[1, 2, 3, 4]);
            a.ptr(12).rrfix(T_A, 1, 4).raw(&[1, 2, 3, 4]);
            inp(a.done(), "count-lies-low", legal)
        }
        32 => {
            // packet lengths 0..13 of an otherwise minimal query (17 bytes is the minimum legal)
            let mut a = Asm::header(1, 0x0100, 1, 0, 0, 0);
            a.root().u16(1).u16(1);
            let mut b = a.done();
            if !legal {
                let l = rng.below(b.len());
                b.truncate(l);
            }
            inp(b, "short-packet", legal)
        }
        33 => {
            // generic rdata reaching exactly the end / one byte missing
            let mut a = resp(1, 0, 0);
            let l = rng.range(1, 300);
            a.ptr(12).rrfix(T_TXT, 1, l as u16).raw(&vec![0xc0u8; if legal { l } else { l - 1 }]);
            inp(a.done(), "rdata-overrun", legal)
        }
        34 => {
            // record header cut at every position
            let mut a = resp(1, 0, 0);
            a.ptr(12).rrfix(T_TXT, 1, 0);
            let mut b = a.done();
            if !legal {
                let cut = rng.range(1, 11);
                b.truncate(b.len() - cut);
            }
            inp(b, "rr-header-truncated", legal)
        }
        35 => {
            // control characters, dot, backslash in a label / high bytes and space are fine
            let mut a = resp(1, 0, 0);
            let c = if legal {
                *rng.pick(&[0x20u8, 0x21, 0x7e, 0x80, 0xff, b'-', b'_', b'*', b'@'])
            } else {
                *rng.pick(&[0x00u8, 0x01, 0x09, 0x0a, 0x1f, 0x7f, b'.', b'\\'])
            };
            a.label(&[b'a', c, b'b']).root().rrfix(T_A, 1, 4).raw(&[1, 2, 3, 4]);
            inp(a.done(), "label-charset", legal)
        }
        36 => {
            // bad characters inside rdata names (NS) and inside a name reached through a pointer
            let mut a = resp(2, 0, 0);
            let c = if legal { b'x' } else { *rng.pick(&[0x00u8, 0x1f, 0x7f, b'.', b'\\']) };
            // opaque rdata holding a label with that character
            a.ptr(12).rrfix(T_TXT, 1, 4);
            let x = a.pos();
            a.label(&[b'a', c]).root();
            a.ptr(12).rrfix(T_NS, 1, 2).ptr(x);
            inp(a.done(), "label-charset-via-pointer", legal)
        }
        37 => {
            // length bytes 0x40..0xbf are never labels
            let mut a = resp(1, 0, 0);
            if legal {
                a.label(b"ok").root();
            } else {
                a.b.push(*rng.pick(&[0x40u8, 0x41, 0x7f, 0x80, 0xbf]));
                a.raw(b"ok").root();
            }
            a.rrfix(T_A, 1, 4).raw(&[1, 2, 3, 4]);
            inp(a.done(), "label-type-bits", legal)
        }
        38 => {
            // question name via a pointer into the header: id = [1,'h'], flags hi = 0
            let mut a = Asm::header(0x0168, 0x0020, 1, 0, 0, 0);
            if legal {
                a.ptr(0);
            } else {
                // offset 4 holds qdcount hi = 0 : pointer to a root byte
                a.ptr(4);
            }
            a.u16(1).u16(1);
            inp(a.done(), "pointer-into-header", legal)
        }
        39 => {
            // the byte after a label must exist: name ends exactly at packet end
            let mut a = Asm::header(1, 0x0100, 1, 0, 0, 0);
            a.label(b"q").root().u16(1).u16(1);
            let mut b = a.done();
            if !legal {
                b.truncate(12 + 2); // label without its terminator
            }
            inp(b, "name-unterminated", legal)
        }
        40 => {
            // large packets: 65535 bytes of valid records / same plus a stray byte
            let mut a = resp(0, 0, 0);
            let mut n = 0u16;
            while a.pos() + 2 + 10 + 1000 <= 65535 - 13 {
                a.ptr(12).rrfix(T_TXT, 1, 1000).raw(&vec![0xc0u8; 1000]);
                n += 1;
            }
            let left = 65535 - a.pos() - 12;
            a.ptr(12).rrfix(T_TXT, 1, left as u16).raw(&vec![0u8; left]);
            n += 1;
            a.b[6..8].copy_from_slice(&n.to_be_bytes());
            if !legal {
                a.raw(&[0]);
            }
            inp(a.done(), "packet-65535", legal)
        }
        41 => {
            // > 65535 bytes: 70 records of 1000 bytes
            let mut a = resp(0, 0, 0);
            let n = 70u16;
            for _ in 0..n {
                a.ptr(12).rrfix(T_TXT, 1, 1000).raw(&vec![0x3fu8; 1000]);
            }
            a.b[6..8].copy_from_slice(&n.to_be_bytes());
            if !legal {
                a.b.pop();
            }
            inp(a.done(), "packet-70000", legal)
        }
        42 => {
            // names beyond offset 16383 cannot be pointer targets, but literal names there are fine;
            // a pointer with all 14 bits set (0x3fff) to a valid label is legal
            let mut a = resp(3, 0, 0);
            let pad = 0x3ffb - a.pos() - (2 + 10);
            a.ptr(12).rrfix(T_TXT, 1, pad as u16).raw(&vec![0u8; pad]);
            assert_eq!(a.pos(), 0x3ffb);
            a.label(b"far").root().rrfix(T_A, 1, 4).raw(&[1, 2, 3, 4]);
            // 0x3fff is the root byte of "far."
            a.ptr(if legal { 0x3ffb } else { 0x3fff });
            a.rrfix(T_A, 1, 4).raw(&[1, 2, 3, 4]);
            inp(a.done(), "pointer-14-bits", legal)
        }
        43 => {
            // SOA second name starting exactly at the end of the packet
            let mut a = resp(0, 1, 0);
            a.ptr(12).rrfix(T_SOA, 7, 24).label(b"m").root().root().raw(&[7u8; 20]);
            let mut b = a.done();
            if !legal {
                b.truncate(b.len() - 21);
            }
            inp(b, "soa-second-name-missing", legal)
        }
        44 => {
            // zero-length option as the very last thing / option header cut
            let mut a = resp(0, 0, 1);
            a.root().u16(T_OPT).u16(4096).u32(0).u16(if legal { 4 } else { 3 });
            a.u16(12).u16(0);
            if !legal {
                a.b.pop();
            }
            inp(a.done(), "opt-last-zero-length-option", legal)
        }
        45 => {
            // rdlen 0 for name-bearing types is illegal, legal for opaque
            let t = if legal { *rng.pick(&[T_TXT, 99, 0, 255]) } else { *rng.pick(&[T_NS, T_CNAME, T_PTR, T_DNAME, T_MX, T_SOA]) };
            let mut a = resp(1, 0, 0);
            a.ptr(12).rrfix(t, 1, 0);
            inp(a.done(), "rdlen-zero", legal)
        }
        46 => {
            // DNAME target (pointer-free, any bytes) of 255 / 256 bytes including the root
            let mut a = resp(1, 0, 0);
            let n = if legal {
                Name(vec![vec![0x01; 63], vec![b'.'; 63], vec![0xff; 63], vec![b'd'; 61]])
            } else {
                Name(vec![vec![0x01; 63], vec![b'.'; 63], vec![0xff; 63], vec![b'd'; 62]])
            };
            a.ptr(12).rrfix(T_DNAME, 7, n.wire_len() as u16).name(&n);
            inp(a.done(), "dname-255/256", legal)
        }
        47 => {
            // DNAME label of 63 / 64 bytes
            let mut a = resp(1, 0, 0);
            let l = if legal { 63 } else { 64 };
            a.ptr(12).rrfix(T_DNAME, 7, (l + 2) as u16);
            a.b.push(l as u8);
            a.raw(&vec![b'x'; l]).root();
            inp(a.done(), "dname-label-63/64", legal)
        }
        48 => {
            // option length near 2^16: header size + length must not wrap
            let mut a = resp(0, 0, 1);
            a.root().u16(T_OPT).u16(4096).u32(0).u16(if legal { 4 } else { 8 });
            if legal {
                a.u16(12).u16(0);
            } else {
                a.u16(12).u16(*rng.pick(&[0xfffcu16, 0xfffd, 0xffff, 0xfffb])).raw(&[0, 0, 0, 0]);
            }
            inp(a.done(), "opt-option-length-wrap", legal)
        }
        49 => {
            // a compressed owner name starting just above offset 65536 (offsets that wrap to small numbers in 16
            // bits); the illegal side points forward instead
            let mut a = resp(0, 0, 0);
            let at = *rng.pick(&[65536usize, 65537, 65540, 65548, 65549, 65600, 70000]);
            let mut n = 0u16;
            while a.pos() + 2 + 10 + 60000 < at {
                a.ptr(12).rrfix(T_TXT, 1, 60000).raw(&vec![0x3fu8; 60000]);
                n += 1;
            }
            let left = at - a.pos() - 12;
            a.ptr(12).rrfix(T_TXT, 1, left as u16).raw(&vec![0x3fu8; left]);
            n += 1;
            assert_eq!(a.pos(), at);
            if legal {
                a.ptr(12);
            } else {
                a.ptr(0x3fff);
            }
            a.rrfix(T_A, 1, 4).raw(&[1, 2, 3, 4]);
            n += 1;
            a.b[6..8].copy_from_slice(&n.to_be_bytes());
            inp(a.done(), "pointer-name-beyond-65536", legal)
        }
        50 => {
            // DNAME target: a length byte of 0xc0..0xff is a pointer (refused in DNAME data) however many bytes
            // follow it; the legal side has a 63-byte label there
            let mut a = resp(1, 0, 0);
            let l = if legal { 63usize } else { *rng.pick(&[0xc0usize, 0xc1, 0xd0, 0xff]) };
            a.ptr(12).rrfix(T_DNAME, 1, (1 + l + 1) as u16);
            a.b.push(l as u8);
            a.raw(&vec![b'd'; l]).root();
            inp(a.done(), "dname-label-63/192+", legal)
        }
        51 => {
            // SOA whose RDLENGTH is tiny (1..21) although two valid names follow
            let mut a = resp(1, 0, 0);
            a.ptr(12).rrfix(T_SOA, 1, if legal { 24 } else { *rng.pick(&[1u16, 2, 5, 19, 20, 21]) });
            a.ptr(12).ptr(12).raw(&[0u8; 20]);
            if !legal {
                // keep the packet length consistent with the (lying) RDLENGTH being the only defect
            }
            inp(a.done(), "soa-rdlen-tiny", legal)
        }
        52 => {
            // MX: bytes after the exchange name
            let mut a = resp(1, 0, 0);
            let extra = if legal { 0 } else { rng.range(1, 9) };
            a.ptr(12).rrfix(T_MX, 1, (2 + 2 + extra) as u16).u16(10).ptr(12).raw(&vec![0u8; extra]);
            inp(a.done(), "mx-slack", legal)
        }
        53 => {
            // OPT belongs in the additional section only; and there is at most one
            if rng.chance(1, 2) {
                let mut a = if legal { resp(0, 0, 1) } else { resp(0, 1, 0) };
                a.root().u16(T_OPT).u16(4096).u32(0).u16(0);
                inp(a.done(), "opt-in-authority", legal)
            } else {
                let mut a = resp(0, 0, if legal { 2 } else { 3 });
                a.root().u16(T_OPT).u16(4096).u32(0).u16(4).u16(10).u16(0);
                a.ptr(12).rrfix(T_A, 1, 4).raw(&[1, 2, 3, 4]);
                if !legal {
                    a.root().u16(T_OPT).u16(1232).u32(0).u16(0);
                }
                inp(a.done(), "opt-twice", legal)
            }
        }
        54 => {
            // a record whose RDLENGTH is within ten bytes of 65535 (header size + length wraps in 16 bits), in the
            // middle of a packet; the illegal side announces more than is there
            let mut a = resp(2, 0, 0);
            let l = *rng.pick(&[65525usize, 65526, 65530, 65534, 65535]);
            let literal = rng.chance(1, 2);
            if literal {
                a.label(b"q").root();
            } else {
                a.ptr(12);
            }
            a.rrfix(*rng.pick(&[T_TXT, 99, 65280]), 1, l as u16).raw(&vec![0x3fu8; if legal { l } else { l - 1 }]);
            if literal {
                a.label(b"q").root();
            } else {
                a.ptr(12);
            }
            a.rrfix(T_A, 1, 4).raw(&[1, 2, 3, 4]);
            inp(a.done(), "rdlen-near-65535", legal)
        }
        55 => {
            // labels reached through a pointer must all start before the name (segment) that referred to them.
            // Illegal side: they run forward INTO the referring name, landing in the middle of its long first
            // label on two bytes that read as a pointer to a perfectly good earlier name.
            let mut a = resp(4, 0, 0);
            a.ptr(12).rrfix(T_A, 1, 4).raw(&[1, 2, 3, 4]);
            let q_off = a.pos(); // 35 = '#': a legal label byte, as the low half of the fake pointer has to be
            a.label(b"ab").root().rrfix(T_A, 1, 4).raw(&[1, 2, 3, 4]);
            let fill = rng.range(3, 30);
            a.ptr(12).rrfix(T_TXT, 1, (fill + 4) as u16).raw(&vec![b'x'; fill]);
            let t;
            if legal {
                t = a.pos();
                a.raw(&[2, b'z', b'z', 0]);
            } else {
                a.raw(&[b'x']);
                t = a.pos();
                a.raw(&[6, b'z', b'z']);
            }
            let l = rng.range(32, 63);
            let mut lab = vec![b'a'; l];
            lab[3] = 0xc0 | (q_off >> 8) as u8;
            lab[4] = q_off as u8;
            a.label(&lab).ptr(t).rrfix(T_A, 1, 4).raw(&[1, 2, 3, 4]);
            inp(a.done(), "pointer-target-runs-into-the-referring-name", legal)
        }
        _ => unreachable!(),
    }
}

// ---------------------------------------------------------------------------
// structure-aware mutation of a valid packet

/// Offsets of every label-length byte and every pointer in names the library understands.
fn name_bytes(p: &[u8], d: &Decoded) -> (Vec<usize>, Vec<usize>) {
    let mut lens = vec![];
    let mut ptrs = vec![];
    let mut walk = |start: usize| {
        let mut pos = start;
        loop {
            if pos >= p.len() {
                break;
            }
            let b = p[pos];
            if b >= 0xc0 {
                ptrs.push(pos);
                break;
            }
            lens.push(pos);
            if b == 0 || b >= 0x40 {
                break;
            }
            pos += 1 + b as usize;
        }
    };
    for r in &d.layout.question {
        walk(r.off);
    }
    for s in 0..3 {
        for (r, rec) in d.layout.sec[s].iter().zip(d.msg.sec[s].iter()) {
            walk(r.off);
            let rd = r.name_end + 10;
            match rec.rtype {
                T_NS | T_CNAME | T_PTR | T_DNAME => walk(rd),
                T_MX => walk(rd + 2),
                T_SOA => {
                    walk(rd);
                    if let Ok(n1) = ref_name(p, rd) {
                        walk(n1.end);
                    }
                }
                _ => {}
            }
        }
    }
    (lens, ptrs)
}

pub const N_MUTATIONS: usize = 22;

/// Apply one structure-aware mutation to a valid packet.
pub fn mutate(rng: &mut Rng, base: &[u8], d: &Decoded, which: usize) -> (Vec<u8>, &'static str) {
    let mut b = base.to_vec();
    let all_recs: Vec<&RecLayout> = d.layout.sec.iter().flatten().collect();
    let (lens, ptrs) = name_bytes(base, d);
    let fam: &'static str;
    match which {
        0 => {
            fam = "mut-count";
            let f = 4 + 2 * rng.below(4);
            let v = u16::from_be_bytes([b[f], b[f + 1]]);
            let nv = if rng.chance(1, 2) { v.wrapping_add(1) } else { v.wrapping_sub(1) };
            b[f..f + 2].copy_from_slice(&nv.to_be_bytes());
        }
        1 => {
            fam = "mut-rdlen";
            if let Some(r) = all_recs.get(rng.below(all_recs.len().max(1))) {
                let o = r.name_end + 8;
                let v = u16::from_be_bytes([b[o], b[o + 1]]);
                let nv = match rng.below(4) {
                    0 => v.wrapping_add(1),
                    1 => v.wrapping_sub(1),
                    2 => 0,
                    _ => rng.u16(),
                };
                b[o..o + 2].copy_from_slice(&nv.to_be_bytes());
            }
        }
        2 => {
            fam = "mut-truncate-boundary";
            let mut cuts: Vec<usize> = vec![12];
            for r in d.layout.question.iter().chain(all_recs.iter().copied()) {
                cuts.extend_from_slice(&[r.off, r.name_end, r.name_end + 2, r.name_end + 9, r.end.saturating_sub(1)]);
            }
            let c = *rng.pick(&cuts);
            b.truncate(c.min(b.len()));
        }
        3 => {
            fam = "mut-truncate-random";
            let c = rng.below(b.len());
            b.truncate(c);
        }
        4 => {
            fam = "mut-append";
            let k = rng.range(1, 12);
            let extra = rng.bytes(k);
            b.extend_from_slice(&extra);
        }
        5 => {
            fam = "mut-label-len";
            if !lens.is_empty() {
                let o = *rng.pick(&lens);
                b[o] = match rng.below(6) {
                    0 => b[o].wrapping_add(1),
                    1 => b[o].wrapping_sub(1),
                    2 => 63,
                    3 => 64,
                    4 => 0xc0,
                    _ => 0,
                };
            }
        }
        6 => {
            fam = "mut-pointer-retarget";
            if !ptrs.is_empty() {
                let o = *rng.pick(&ptrs);
                let t = match rng.below(7) {
                    0 => o,                                   // self
                    1 => o + 2,                               // just after
                    2 => *rng.pick(&ptrs),                    // another pointer (cycles)
                    3 => rng.below(b.len().min(0x3fff)),      // anywhere
                    4 => o.saturating_sub(1),
                    5 => rng.below(12),                       // header
                    _ => *rng.pick(if lens.is_empty() { &ptrs } else { &lens }),
                };
                b[o] = 0xc0 | (t >> 8) as u8;
                b[o + 1] = t as u8;
            }
        }
        7 => {
            fam = "mut-pointer-cycle";
            if ptrs.len() >= 2 {
                // make two or three pointers point at each other
                let k = if ptrs.len() >= 3 && rng.chance(1, 2) { 3 } else { 2 };
                let mut sel: Vec<usize> = (0..k).map(|_| *rng.pick(&ptrs)).collect();
                sel.dedup();
                for i in 0..sel.len() {
                    let t = sel[(i + 1) % sel.len()];
                    b[sel[i]] = 0xc0 | (t >> 8) as u8;
                    b[sel[i] + 1] = t as u8;
                }
            }
        }
        8 => {
            fam = "mut-flip-qr";
            b[2] ^= 0x80;
        }
        9 => {
            fam = "mut-question-class";
            let q = &d.layout.question[0];
            let v = *rng.pick(&[0u16, 3, 4, 255, 0x0100]);
            b[q.name_end + 2..q.name_end + 4].copy_from_slice(&v.to_be_bytes());
        }
        10 => {
            fam = "mut-type-swap";
            if let Some(r) = all_recs.get(rng.below(all_recs.len().max(1))) {
                let t = *rng.pick(&[T_A, T_AAAA, T_NS, T_CNAME, T_PTR, T_MX, T_SOA, T_DNAME, T_OPT, T_TXT]);
                b[r.name_end..r.name_end + 2].copy_from_slice(&t.to_be_bytes());
            }
        }
        11 => {
            fam = "mut-opt-duplicate";
            if let Some(o) = &d.layout.opt {
                let rec = d.layout.sec[SEC_AR][o.index].clone();
                let copy = base[rec.off..rec.end].to_vec();
                let at = if rng.chance(1, 2) { b.len() } else { rec.off };
                b.splice(at..at, copy);
                let ar = u16::from_be_bytes([b[10], b[11]]).wrapping_add(1);
                b[10..12].copy_from_slice(&ar.to_be_bytes());
            }
        }
        12 => {
            fam = "mut-opt-into-other-section";
            // move one record's worth of count from additional to authority/answer
            let ar = u16::from_be_bytes([b[10], b[11]]);
            if ar > 0 && d.layout.opt.as_ref().map(|o| o.index == 0).unwrap_or(false) {
                b[10..12].copy_from_slice(&(ar - 1).to_be_bytes());
                let f = if rng.chance(1, 2) { 6 } else { 8 };
                let v = u16::from_be_bytes([b[f], b[f + 1]]).wrapping_add(1);
                b[f..f + 2].copy_from_slice(&v.to_be_bytes());
                b[2] |= 0x80;
            }
        }
        13 => {
            fam = "mut-opt-option-len";
            if let Some(o) = &d.layout.opt {
                if !o.option_offs.is_empty() {
                    let oo = *rng.pick(&o.option_offs) + 2;
                    let v = u16::from_be_bytes([b[oo], b[oo + 1]]);
                    let nv = match rng.below(4) {
                        0 => v.wrapping_add(1),
                        1 => v.wrapping_sub(1),
                        2 => *rng.pick(&[0xfffcu16, 0xfffb, 0xfffd, 0xffff, 0x8000, 0xfff8]),
                        _ => rng.u16(),
                    };
                    b[oo..oo + 2].copy_from_slice(&nv.to_be_bytes());
                } else {
                    // OPT rdlen tweak
                    let oo = o.options_start - 2;
                    b[oo + 1] = b[oo + 1].wrapping_add(1 + rng.below(4) as u8);
                }
            }
        }
        14 => {
            fam = "mut-byte";
            let o = rng.below(b.len());
            b[o] = rng.u8();
        }
        15 => {
            fam = "mut-bit";
            let o = rng.below(b.len());
            b[o] ^= 1 << rng.below(8);
        }
        16 => {
            fam = "mut-several-bytes";
            for _ in 0..rng.range(2, 6) {
                let o = rng.below(b.len());
                b[o] = *rng.pick(&[0u8, 0xc0, 0xff, 0x3f, 0x40, 0x0c, 1]);
            }
        }
        17 => {
            fam = "mut-delete-span";
            let o = rng.below(b.len());
            let l = rng.range(1, 8).min(b.len() - o);
            b.drain(o..o + l);
        }
        18 => {
            fam = "mut-insert-span";
            let o = rng.range(12, b.len());
            let k = rng.range(1, 6);
            let d2 = rng.bytes(k);
            b.splice(o..o, d2);
        }
        19 => {
            fam = "mut-label-char";
            // put a forbidden character inside a label
            let cand: Vec<usize> = lens.iter().copied().filter(|&o| base[o] > 0 && base[o] < 0x40).collect();
            if !cand.is_empty() {
                let o = *rng.pick(&cand);
                let k = 1 + rng.below(base[o] as usize);
                if o + k < b.len() {
                    b[o + k] = *rng.pick(&[0u8, 0x1f, 0x7f, b'.', b'\\', 0x0a]);
                }
            }
        }
        20 => {
            fam = "mut-swap-records";
            if all_recs.len() >= 2 {
                let i = rng.below(all_recs.len() - 1);
                let (r1, r2) = (all_recs[i], all_recs[i + 1]);
                let mut nb = base[..r1.off].to_vec();
                nb.extend_from_slice(&base[r2.off..r2.end]);
                nb.extend_from_slice(&base[r1.off..r1.end]);
                nb.extend_from_slice(&base[r2.end..]);
                b = nb;
            }
        }
        _ => {
            fam = "mut-header-word";
            let o = 2 * rng.below(6);
            let v = rng.u16();
            b[o..o + 2].copy_from_slice(&v.to_be_bytes());
        }
    }
    (b, fam)
}

/// Random bytes behind a plausible header.
pub fn random_with_header(rng: &mut Rng) -> Vec<u8> {
    let n = match rng.below(4) {
        0 => rng.range(0, 20),
        1 => rng.range(12, 60),
        _ => rng.range(12, 300),
    };
    let mut b = rng.bytes(n);
    if b.len() >= 12 {
        b[4] = 0;
        b[5] = 1;
        for f in [6usize, 8, 10] {
            b[f] = 0;
            b[f + 1] = rng.below(4) as u8;
        }
        if rng.chance(1, 2) {
            b[2] |= 0x80;
        }
        // bias the payload toward structural bytes
        for i in 12..b.len() {
            if rng.chance(1, 3) {
                b[i] = *rng.pick(&[0u8, 1, 2, 3, 0xc0, 0x0c, 4, 16, 41, 0, 0, 1]);
            }
        }
    }
    b
}

/// One input for the parse workloads (C01, C02, C18).
pub fn parse_input(rng: &mut Rng, case: u64) -> Input {
    let sel = rng.below(100);
    if sel < 14 {
        let k = (case as usize) % N_BOUNDARY;
        let legal = rng.chance(1, 2);
        return boundary(rng, k, legal);
    }
    if sel < 30 {
        let v = gen_valid(rng, &Cfg::default());
        return Input {
            bytes: v.bytes,
            family: "valid",
            expect: Some(true),
        };
    }
    if sel < 88 {
        let cfg = Cfg {
            max_records: 8,
            ..Default::default()
        };
        let v = gen_valid(rng, &cfg);
        match refparse(&v.bytes, STRICT) {
            Ok(d) => {
                let which = rng.below(N_MUTATIONS);
                let (b, fam) = mutate(rng, &v.bytes, &d, which);
                // a second mutation now and then
                if rng.chance(1, 6) {
                    if let Ok(d2) = refparse(&b, STRICT) {
                        let w2 = rng.below(N_MUTATIONS);
                        let (b2, _) = mutate(rng, &b, &d2, w2);
                        return Input { bytes: b2, family: "mut-double", expect: None };
                    }
                }
                Input { bytes: b, family: fam, expect: None }
            }
            Err(_) => Input {
                bytes: v.bytes,
                family: "valid",
                expect: Some(true),
            },
        }
    } else {
        Input {
            bytes: random_with_header(rng),
            family: "random",
            expect: None,
        }
    }
}

//! G-valid: packets that are well-formed *by construction*, together with the
//! message they encode. The message is derived from the layout decisions
//! (fresh labels + the name already standing at the chosen pointer target), so
//! it is known without trusting any parser.

use crate::model::msg::*;
use crate::prng::Rng;

#[derive(Clone, Debug)]
pub struct Target {
    pub off: usize,
    /// the name one obtains by decoding from `off`
    pub name: Name,
    /// pointers followed when decoding from `off`
    pub depth: usize,
}

#[derive(Clone, Copy, Debug, PartialEq, Eq)]
pub enum OptPos {
    None,
    First,
    Middle,
    Last,
    Only,
}

#[derive(Clone, Debug)]
pub struct Cfg {
    pub max_records: usize,
    /// probability (x/8) that a name uses a pointer when one is possible
    pub compress_eighths: usize,
    pub opt: Option<OptPos>, // None = draw
    pub response: Option<bool>,
    /// label alphabet size (small => many shared suffixes)
    pub alphabet: usize,
    pub allow_opaque_name_targets: bool,
    pub allow_header_targets: bool,
    pub long_names: bool,
    pub mixed_case: bool,
    /// restrict record types to those the text synthesiser / C table can make
    pub types: &'static [u16],
    /// unique TTL per record (history checks)
    pub unique_ttl: bool,
}

pub const ALL_TYPES: &[u16] = &[
    T_A, T_A, T_AAAA, T_NS, T_CNAME, T_PTR, T_MX, T_SOA, T_DNAME, T_TXT, T_DS, 99, 257, 33, 46,
    65280,
];

impl Default for Cfg {
    fn default() -> Self {
        Cfg {
            max_records: 12,
            compress_eighths: 5,
            opt: None,
            response: None,
            alphabet: 4,
            allow_opaque_name_targets: true,
            allow_header_targets: true,
            long_names: true,
            mixed_case: true,
            types: ALL_TYPES,
            unique_ttl: false,
        }
    }
}

pub struct Built {
    pub bytes: Vec<u8>,
    pub msg: Msg,
    pub pointers: usize,
    pub max_chain: usize,
    pub opt_pos: OptPos,
    pub header_target: bool,
    pub opaque_target: bool,
    /// (offset, length) of name-shaped bytes inside opaque rdata that later names may point into
    pub opaque_spans: Vec<(usize, usize)>,
}

struct Builder<'a> {
    rng: &'a mut Rng,
    cfg: &'a Cfg,
    buf: Vec<u8>,
    targets: Vec<Target>,
    pointers: usize,
    max_chain: usize,
    header_target: bool,
    opaque_target: bool,
    opaque_spans: Vec<(usize, usize)>,
}

const LABEL_POOL: &[&[u8]] = &[
    b"a", b"b", b"com", b"net", b"example", b"www", b"ns1", b"mail", b"x-y", b"_tcp", b"xn--bcher",
    b"0", b"123", b"z9", b"ORG", b"Example", b"CoM", b"sub", b"deep", b"k", b"a@b", b"[x]", b"n^2", b"\xc3\x89t\xc3\x89",
];

fn ok_label_byte(rng: &mut Rng) -> u8 {
    loop {
        let c = match rng.below(10) {
            0 => rng.u8(),
            1 => 0x80 | rng.u8(),
            _ => *rng.pick(b"abcdefghijklmnopqrstuvwxyzABCDEFGHIJKLMNOPQRSTUVWXYZ0123456789-_ !*"),
        };
        if !(c < 0x20 || c == 0x7f || c == b'.' || c == b'\\') {
            return c;
        }
    }
}

pub fn gen_label(rng: &mut Rng, cfg: &Cfg) -> Vec<u8> {
    let mut l = match rng.below(16) {
        0 => {
            // arbitrary legal bytes, any length
            let n = if cfg.long_names && rng.chance(1, 4) {
                *rng.pick(&[62usize, 63, 63, 40])
            } else {
                rng.range(1, 12)
            };
            (0..n).map(|_| ok_label_byte(rng)).collect()
        }
        1 => {
            let n = rng.range(1, 6);
            (0..n).map(|_| ok_label_byte(rng)).collect()
        }
        _ => LABEL_POOL[rng.below(cfg.alphabet.min(LABEL_POOL.len()).max(1))].to_vec(),
    };
    if cfg.mixed_case && rng.chance(1, 6) {
        for c in l.iter_mut() {
            if rng.chance(1, 2) {
                *c = if c.is_ascii_lowercase() {
                    c.to_ascii_uppercase()
                } else {
                    c.to_ascii_lowercase()
                };
            }
        }
    }
    l
}

/// A fresh name (labels only) of at most `max_wire` expanded bytes.
pub fn gen_name(rng: &mut Rng, cfg: &Cfg, max_wire: usize) -> Name {
    let nl = match rng.below(20) {
        0 => 0,
        1 if cfg.long_names => rng.range(8, 127),
        _ => rng.range(1, 4),
    };
    let mut n = Name::root();
    for _ in 0..nl {
        let l = gen_label(rng, cfg);
        if n.wire_len() + l.len() + 1 > max_wire {
            break;
        }
        n.0.push(l);
    }
    n
}

/// A name of exactly `wire` expanded bytes (wire == 1 or 3 <= wire <= 255), labels <= 63.
pub fn name_of_wire_len(rng: &mut Rng, wire: usize) -> Name {
    assert!(wire >= 1 && wire <= 255 && wire != 2);
    let mut left = wire - 1;
    let mut n = Name::root();
    while left > 0 {
        let take = if left <= 64 && (left <= 3 || rng.chance(1, 2)) {
            left
        } else {
            let mut t = rng.range(2, left.min(64));
            if left - t == 1 {
                if t > 2 {
                    t -= 1;
                } else {
                    t += 1;
                }
            }
            t
        };
        let lab: Vec<u8> = (0..take - 1).map(|_| *rng.pick(b"abcdxyz019-")).collect();
        n.0.push(lab);
        left -= take;
    }
    assert_eq!(n.wire_len(), wire);
    n
}

pub fn fixed_name_of_wire_len(wire: usize) -> Name {
    let mut left = wire - 1;
    let mut n = Name::root();
    while left > 0 {
        let take = if left > 64 && left != 65 {
            64
        } else if left == 65 {
            33
        } else {
            left
        };
        n.0.push(vec![b'm'; take - 1]);
        left -= take;
    }
    debug_assert_eq!(n.wire_len(), wire);
    n
}

impl<'a> Builder<'a> {
    /// Register every label start of a literally emitted run as a future pointer target.
    fn register(&mut self, start: usize, fresh: &[Vec<u8>], tail: &Name, tail_depth: usize) {
        let mut off = start;
        for i in 0..fresh.len() {
            let mut labels: Vec<Vec<u8>> = fresh[i..].to_vec();
            labels.extend(tail.0.iter().cloned());
            self.targets.push(Target {
                off,
                name: Name(labels),
                depth: tail_depth,
            });
            off += fresh[i].len() + 1;
        }
    }

    /// Emit a name at the current position. `want`: an already decided name
    /// (used for OPT owner = root) or None to draw one together with its layout.
    fn emit_name(&mut self, allow_ptr: bool) -> Name {
        let start = self.buf.len();
        let use_ptr = allow_ptr
            && !self.targets.is_empty()
            && self.rng.chance(self.cfg.compress_eighths, 8);
        if use_ptr {
            // candidates: targets strictly before `start`, representable in 14 bits
            let cands: Vec<usize> = (0..self.targets.len())
                .filter(|&i| self.targets[i].off < start && self.targets[i].off < 0x4000)
                .collect();
            if !cands.is_empty() {
                // prefer deep chains sometimes
                let ti = if self.rng.chance(1, 3) {
                    let mut best = cands[self.rng.below(cands.len())];
                    for _ in 0..6 {
                        let c = cands[self.rng.below(cands.len())];
                        if self.targets[c].depth > self.targets[best].depth
                            && self.targets[c].depth < 16
                        {
                            best = c;
                        }
                    }
                    best
                } else {
                    cands[self.rng.below(cands.len())]
                };
                let t = self.targets[ti].clone();
                if t.depth < 16 {
                    let room = 255 - t.name.wire_len();
                    let mut fresh: Vec<Vec<u8>> = vec![];
                    let nfresh = match self.rng.below(4) {
                        0 => 0,
                        1 | 2 => 1,
                        _ => self.rng.range(1, 3),
                    };
                    let mut used = 0;
                    for _ in 0..nfresh {
                        let l = gen_label(self.rng, self.cfg);
                        if used + l.len() + 1 > room {
                            break;
                        }
                        used += l.len() + 1;
                        fresh.push(l);
                    }
                    for l in &fresh {
                        self.buf.push(l.len() as u8);
                        self.buf.extend_from_slice(l);
                    }
                    self.buf.push(0xc0 | (t.off >> 8) as u8);
                    self.buf.push((t.off & 0xff) as u8);
                    let depth = t.depth + 1;
                    self.pointers += 1;
                    self.max_chain = self.max_chain.max(depth);
                    if t.off < 12 {
                        self.header_target = true;
                    }
                    // label starts of the fresh run, and the pointer itself, become targets
                    self.register(start, &fresh, &t.name, depth);
                    let ptr_off = self.buf.len() - 2;
                    self.targets.push(Target {
                        off: ptr_off,
                        name: t.name.clone(),
                        depth,
                    });
                    return Name(fresh).concat(&t.name);
                }
            }
        }
        let n = gen_name(self.rng, self.cfg, 255);
        n.write_wire(&mut self.buf);
        let labels = n.0.clone();
        self.register(start, &labels, &Name::root(), 0);
        n
    }

    fn emit_record(&mut self, force_type: Option<u16>, ttl: Option<u32>) -> Record {
        let mut rtype = force_type.unwrap_or_else(|| *self.rng.pick(self.cfg.types));
        if force_type.is_none() && std::ptr::eq(self.cfg.types, ALL_TYPES) && self.rng.chance(1, 6) {
            // any other type is opaque to the library, including the RFC 1035 types whose data holds names
            // (MD MF MB MG MR MINFO RP AFSDB RT PX SRV NAPTR KX NSEC RRSIG ...): copied verbatim, never expanded
            rtype = match self.rng.below(3) {
                0 => *self.rng.pick(&[3u16, 4, 7, 8, 9, 14, 17, 18, 21, 26, 33, 35, 36, 47, 46, 249, 250, 0, 10, 13, 65535]),
                _ => self.rng.u16(),
            };
            if [T_A, T_NS, T_CNAME, T_SOA, T_PTR, T_MX, T_AAAA, T_DNAME, T_OPT].contains(&rtype) {
                rtype = T_TXT;
            }
        }
        let name = self.emit_name(true);
        let class = if self.rng.chance(1, 12) { self.rng.u16() } else { 1 };
        let ttl = ttl.unwrap_or_else(|| match self.rng.below(6) {
            0 => 0,
            1 => u32::MAX,
            _ => self.rng.u32(),
        });
        let h = self.buf.len();
        self.buf.extend_from_slice(&rtype.to_be_bytes());
        self.buf.extend_from_slice(&class.to_be_bytes());
        self.buf.extend_from_slice(&ttl.to_be_bytes());
        self.buf.extend_from_slice(&[0, 0]);
        let rd = self.buf.len();
        let rdata = match rtype {
            T_A => {
                let mut a = [0u8; 4];
                a.copy_from_slice(&self.rng.bytes(4));
                self.buf.extend_from_slice(&a);
                RData::A(a)
            }
            T_AAAA => {
                let mut a = [0u8; 16];
                a.copy_from_slice(&self.rng.bytes(16));
                match self.rng.below(8) {
                    // addresses with a special textual / canonical form are 16 opaque bytes like any other
                    0 => a = [0, 0, 0, 0, 0, 0, 0, 0, 0, 0, 0xff, 0xff, a[12], a[13], a[14], a[15]], // ::ffff:a.b.c.d
                    1 => a = [0, 0, 0, 0, 0, 0, 0, 0, 0, 0, 0, 0, a[12], a[13], a[14], a[15]],       // ::a.b.c.d
                    2 => a = [0, 0x64, 0xff, 0x9b, 0, 0, 0, 0, 0, 0, 0, 0, a[12], a[13], a[14], a[15]], // 64:ff9b::/96
                    3 => a = [0; 16],
                    _ => {}
                }
                self.buf.extend_from_slice(&a);
                RData::Aaaa(a)
            }
            T_NS | T_CNAME | T_PTR => RData::Name(self.emit_name(true)),
            T_MX => {
                let p = *self.rng.pick(&[0u16, 1, 10, 65535, 0xc00c]);
                self.buf.extend_from_slice(&p.to_be_bytes());
                RData::Mx(p, self.emit_name(true))
            }
            T_SOA => {
                let a = self.emit_name(true);
                let b = self.emit_name(true);
                let mut m = [0u8; 20];
                m.copy_from_slice(&self.rng.bytes(20));
                self.buf.extend_from_slice(&m);
                RData::Soa(a, b, m)
            }
            T_DNAME => {
                // pointer-free, any bytes
                let nl = self.rng.range(0, 3);
                let mut n = Name::root();
                for _ in 0..nl {
                    let l = if self.rng.chance(1, 2) {
                        let k = self.rng.range(1, 8);
                        self.rng.bytes(k)
                    } else {
                        gen_label(self.rng, self.cfg)
                    };
                    n.0.push(l);
                }
                n.write_wire(&mut self.buf);
                RData::Dname(n)
            }
            _ => {
                let d: Vec<u8> = match self.rng.below(8) {
                    0 => vec![],
                    1 if self.cfg.allow_opaque_name_targets => {
                        // opaque data that reads as a name: "\x03abc\x00" style
                        let n = gen_name(self.rng, self.cfg, 60);
                        if !n.is_root() {
                            let w = n.to_wire();
                            let labels = n.0.clone();
                            self.register(rd, &labels, &Name::root(), 0);
                            self.opaque_target = true;
                            self.opaque_spans.push((rd, w.len()));
                            w
                        } else {
                            vec![]
                        }
                    }
                    2 => {
                        // bytes that look like pointers / lengths
                        let k = self.rng.range(1, 12);
                        (0..k)
                            .map(|_| *self.rng.pick(&[0xc0u8, 0x0c, 0xff, 0x3f, 0x40, 0x00, 0xc1]))
                            .collect()
                    }
                    3 => {
                        let k = self.rng.range(200, 700);
                        self.rng.bytes(k)
                    }
                    _ => {
                        let k = self.rng.range(1, 40);
                        self.rng.bytes(k)
                    }
                };
                self.buf.extend_from_slice(&d);
                RData::Opaque(d)
            }
        };
        let rdlen = self.buf.len() - rd;
        self.buf[h + 8..h + 10].copy_from_slice(&(rdlen as u16).to_be_bytes());
        Record {
            name,
            rtype,
            class,
            ttl,
            rdata,
        }
    }

    fn emit_opt(&mut self) -> Record {
        self.buf.push(0);
        let class = *self.rng.pick(&[512u16, 1232, 4096, 0, 65535, 1]);
        let ttl = if self.rng.chance(1, 2) {
            self.rng.u32()
        } else {
            *self.rng.pick(&[0u32, 0x8000, 0x0100_0000, 0xff00_8000])
        };
        self.buf.extend_from_slice(&T_OPT.to_be_bytes());
        self.buf.extend_from_slice(&class.to_be_bytes());
        self.buf.extend_from_slice(&ttl.to_be_bytes());
        let h = self.buf.len();
        self.buf.extend_from_slice(&[0, 0]);
        let nopt = self.rng.skewed(6);
        let mut opts = vec![];
        for _ in 0..nopt {
            let code = *self.rng.pick(&[3u16, 8, 10, 12, 65001, 0]);
            let dl = match self.rng.below(5) {
                0 => 0,
                1 => self.rng.range(1, 3),
                _ => self.rng.range(0, 24),
            };
            let d = self.rng.bytes(dl);
            self.buf.extend_from_slice(&code.to_be_bytes());
            self.buf.extend_from_slice(&(dl as u16).to_be_bytes());
            self.buf.extend_from_slice(&d);
            opts.push((code, d));
        }
        let rdlen = self.buf.len() - h - 2;
        self.buf[h..h + 2].copy_from_slice(&(rdlen as u16).to_be_bytes());
        Record {
            name: Name::root(),
            rtype: T_OPT,
            class,
            ttl,
            rdata: RData::Opt(opts),
        }
    }
}

/// Draw a well-formed packet and the message it encodes.
pub fn gen_valid(rng: &mut Rng, cfg: &Cfg) -> Built {
    let response = cfg.response.unwrap_or_else(|| rng.chance(3, 4));
    let mut id = rng.u16();
    let mut flags = rng.u16();
    if response {
        flags |= 0x8000;
    } else {
        flags &= !0x8000;
    }
    // header bytes arranged so that they read as a name (pointer targets < 12)
    let mut header_targets: Vec<Target> = vec![];
    if cfg.allow_header_targets && rng.chance(1, 5) {
        if !response && rng.chance(1, 2) {
            // id = [1, c], flags hi = 0  => name "c." at offset 0
            let c = *rng.pick(b"abcXYZ09");
            id = 0x0100 | c as u16;
            flags &= 0x00ff;
            header_targets.push(Target {
                off: 0,
                name: Name(vec![vec![c]]),
                depth: 0,
            });
        } else {
            // id lo = 2, label = the two flag bytes, then qdcount hi = 0 => name at offset 1
            let hi = if response { 0x80 | (flags >> 8) as u8 } else { (flags >> 8) as u8 & 0x7f };
            let lo = flags as u8;
            let bad = |c: u8| c < 0x20 || c == 0x7f || c == b'.' || c == b'\\';
            let hi2 = if bad(hi) { if response { 0x81 } else { 0x21 } } else { hi };
            let lo2 = if bad(lo) { 0x80 } else { lo };
            flags = ((hi2 as u16) << 8) | lo2 as u16;
            id = (id & 0xff00) | 2;
            header_targets.push(Target {
                off: 1,
                name: Name(vec![vec![hi2, lo2]]),
                depth: 0,
            });
        }
    }
    let mut b = Builder {
        rng,
        cfg,
        buf: vec![0u8; 12],
        targets: header_targets,
        pointers: 0,
        max_chain: 0,
        header_target: false,
        opaque_target: false,
        opaque_spans: vec![],
    };
    let mut msg = Msg {
        id,
        flags,
        ..Default::default()
    };
    // question
    let qname = b.emit_name(true);
    let qtype = *b.rng.pick(&[1u16, 28, 2, 15, 6, 255, 41, 16, 12, 65]);
    b.buf.extend_from_slice(&qtype.to_be_bytes());
    b.buf.extend_from_slice(&1u16.to_be_bytes());
    msg.question.push(Question {
        name: qname,
        qtype,
        qclass: 1,
    });
    // records
    let total = b.rng.skewed(cfg.max_records);
    let mut counts = [0usize; 3];
    if response {
        for _ in 0..total {
            counts[b.rng.below(3)] += 1;
        }
    } else {
        counts[2] = total.min(4);
    }
    let opt_pos = match cfg.opt {
        Some(p) => p,
        None => match b.rng.below(8) {
            0 | 1 | 2 => OptPos::None,
            3 => OptPos::First,
            4 => OptPos::Middle,
            _ => OptPos::Last,
        },
    };
    let mut ttl_ctr: u32 = 1000;
    for s in 0..2 {
        for _ in 0..counts[s] {
            let ttl = if cfg.unique_ttl {
                ttl_ctr += 1;
                Some(ttl_ctr)
            } else {
                None
            };
            let r = b.emit_record(None, ttl);
            msg.sec[s].push(r);
        }
    }
    // additional, with OPT placement
    let n_ar = counts[2];
    let (opt_index, opt_pos) = match opt_pos {
        OptPos::None => (None, OptPos::None),
        OptPos::First => (Some(0), if n_ar == 0 { OptPos::Only } else { OptPos::First }),
        OptPos::Last | OptPos::Only => (Some(n_ar), if n_ar == 0 { OptPos::Only } else { OptPos::Last }),
        OptPos::Middle => {
            if n_ar >= 2 {
                (Some(b.rng.range(1, n_ar - 1)), OptPos::Middle)
            } else if n_ar == 1 {
                (Some(1), OptPos::Last)
            } else {
                (Some(0), OptPos::Only)
            }
        }
    };
    for i in 0..=n_ar {
        if Some(i) == opt_index {
            let r = b.emit_opt();
            msg.sec[SEC_AR].push(r);
        }
        if i < n_ar {
            let ttl = if cfg.unique_ttl {
                ttl_ctr += 1;
                Some(ttl_ctr)
            } else {
                None
            };
            let r = b.emit_record(None, ttl);
            msg.sec[SEC_AR].push(r);
        }
    }
    let hdr = msg.header();
    b.buf[..12].copy_from_slice(&hdr);
    Built {
        bytes: b.buf,
        msg,
        pointers: b.pointers,
        max_chain: b.max_chain,
        opt_pos,
        header_target: b.header_target,
        opaque_target: b.opaque_target,
        opaque_spans: b.opaque_spans,
    }
}

/// Pointer-free well-formed packet (domain of C06) and its message.
pub fn gen_valid_literal(rng: &mut Rng, cfg: &Cfg) -> Built {
    let mut c = cfg.clone();
    c.compress_eighths = 0;
    c.allow_header_targets = false;
    gen_valid(rng, &c)
}

//! Monitors shared by all checks: panic capture, step budget, the
//! "current case" slot for abort attribution, statistics / evidence context.

use std::cell::RefCell;
use std::collections::{BTreeMap, BTreeSet};
use std::panic::{self, AssertUnwindSafe};
use std::time::Instant;

use crate::prng::hash_bytes;

#[derive(Clone, Debug)]
pub struct PanicInfo {
    pub msg: String,
    pub file: String,
    pub line: u32,
}

impl PanicInfo {
    /// line-number-free description used in signatures
    pub fn class(&self) -> String {
        let file = self
            .file
            .rsplit('/')
            .next()
            .unwrap_or(&self.file)
            .to_string();
        // strip numbers from the message so that indices/lengths do not split signatures
        let mut m = String::new();
        let mut last_digit = false;
        for c in self.msg.chars() {
            if c.is_ascii_digit() {
                if !last_digit {
                    m.push('N');
                }
                last_digit = true;
            } else {
                m.push(c);
                last_digit = false;
            }
        }
        if m.len() > 100 {
            m.truncate(100);
        }
        format!("panic@{}: {}", file, m)
    }
    pub fn is_budget(&self) -> bool {
        self.msg.contains("step budget exceeded")
    }
}

thread_local! {
    static LAST_PANIC: RefCell<Option<PanicInfo>> = const { RefCell::new(None) };
}

pub fn install_panic_hook() {
    panic::set_hook(Box::new(|info| {
        let msg = if let Some(s) = info.payload().downcast_ref::<&str>() {
            s.to_string()
        } else if let Some(s) = info.payload().downcast_ref::<String>() {
            s.clone()
        } else {
            "<non-string panic>".to_string()
        };
        let (file, line) = info
            .location()
            .map(|l| (l.file().to_string(), l.line()))
            .unwrap_or_default();
        LAST_PANIC.with(|p| *p.borrow_mut() = Some(PanicInfo { msg, file, line }));
    }));
}

/// Default runaway guard: far above any legitimate cost.
pub fn runaway_budget(len: usize) -> u64 {
    4096 * (len as u64 + 64)
}

/// Guard for compression, decompression and renaming: about ten times the densest legitimate case (one tick
/// per label copied plus a walk of at most 16 pointers and 128 labels per dictionary hit), small enough that
/// a change that makes those loops spin costs a fraction of a second per case rather than minutes.
pub fn work_budget(len: usize) -> u64 {
    1024 * (len as u64 + 256)
}

/// Run `f` with panics captured and the step budget armed.
pub fn guarded<R>(budget: u64, f: impl FnOnce() -> R) -> Result<R, PanicInfo> {
    #[cfg(dnssector_verif)]
    dnssector::verif::arm_budget(Some(budget));
    let _ = budget;
    let r = panic::catch_unwind(AssertUnwindSafe(f));
    #[cfg(dnssector_verif)]
    dnssector::verif::arm_budget(None);
    match r {
        Ok(v) => Ok(v),
        Err(_) => Err(LAST_PANIC
            .with(|p| p.borrow_mut().take())
            .unwrap_or(PanicInfo {
                msg: "<unknown panic>".into(),
                file: String::new(),
                line: 0,
            })),
    }
}

#[cfg(dnssector_verif)]
pub fn steps_snapshot() -> [u64; dnssector::verif::N_SITES] {
    dnssector::verif::snapshot()
}

// ---------------------------------------------------------------------------
// allocation monitor: bytes requested from the allocator by the calling thread

pub struct CountingAlloc;

thread_local! {
    static ALLOC_BYTES: std::cell::Cell<u64> = const { std::cell::Cell::new(0) };
}

unsafe impl std::alloc::GlobalAlloc for CountingAlloc {
    unsafe fn alloc(&self, layout: std::alloc::Layout) -> *mut u8 {
        let _ = ALLOC_BYTES.try_with(|c| c.set(c.get().wrapping_add(layout.size() as u64)));
        std::alloc::System.alloc(layout)
    }
    unsafe fn dealloc(&self, ptr: *mut u8, layout: std::alloc::Layout) {
        std::alloc::System.dealloc(ptr, layout)
    }
    unsafe fn alloc_zeroed(&self, layout: std::alloc::Layout) -> *mut u8 {
        let _ = ALLOC_BYTES.try_with(|c| c.set(c.get().wrapping_add(layout.size() as u64)));
        std::alloc::System.alloc_zeroed(layout)
    }
    unsafe fn realloc(&self, ptr: *mut u8, layout: std::alloc::Layout, new_size: usize) -> *mut u8 {
        let _ = ALLOC_BYTES.try_with(|c| c.set(c.get().wrapping_add(new_size as u64)));
        std::alloc::System.realloc(ptr, layout, new_size)
    }
}

/// Bytes requested by this thread so far (0 forever if the binary does not install `CountingAlloc`).
pub fn allocated_bytes() -> u64 {
    ALLOC_BYTES.try_with(|c| c.get()).unwrap_or(0)
}

// ---------------------------------------------------------------------------
// current-case slot (mmap'd file): lets the driver attribute an abort

pub struct Slot {
    ptr: *mut u64,
}

impl Slot {
    pub fn open(path: Option<&str>) -> Slot {
        let Some(path) = path else {
            return Slot {
                ptr: std::ptr::null_mut(),
            };
        };
        unsafe {
            let c = std::ffi::CString::new(path).unwrap();
            let fd = libc::open(c.as_ptr(), libc::O_RDWR | libc::O_CREAT, 0o644);
            if fd < 0 {
                return Slot {
                    ptr: std::ptr::null_mut(),
                };
            }
            libc::ftruncate(fd, 64);
            let p = libc::mmap(
                std::ptr::null_mut(),
                64,
                libc::PROT_READ | libc::PROT_WRITE,
                libc::MAP_SHARED,
                fd,
                0,
            );
            libc::close(fd);
            if p == libc::MAP_FAILED {
                return Slot {
                    ptr: std::ptr::null_mut(),
                };
            }
            Slot { ptr: p as *mut u64 }
        }
    }
    /// word 0: case index + 1 (0 = none); word 1: phase tag
    #[inline]
    pub fn set(&self, case: u64, phase: u64) {
        if !self.ptr.is_null() {
            unsafe {
                std::ptr::write_volatile(self.ptr, case + 1);
                std::ptr::write_volatile(self.ptr.add(1), phase);
            }
        }
    }
    pub fn clear(&self) {
        if !self.ptr.is_null() {
            unsafe {
                std::ptr::write_volatile(self.ptr, 0);
            }
        }
    }
}

// ---------------------------------------------------------------------------

#[derive(Clone, Debug)]
pub struct Violation {
    pub property: String,
    /// canonical, line-number-free signature (see DESIGN.md §2)
    pub signature: String,
    pub detail: String,
    pub case: u64,
    pub phase: String,
    /// hex of the primary input, when there is one
    pub input_hex: String,
    pub count: u64,
}

pub struct Ctx {
    pub check: String,
    pub seed: u64,
    pub shard: u64,
    pub nshards: u64,
    pub tier: String,
    pub flavour: String,
    pub scale: f64,
    pub slot: Slot,
    pub start: Instant,
    pub time_cap_s: f64,
    pub only_case: Option<u64>,
    pub only_phase: Option<String>,
    pub cur_phase: String,
    pub verbose: bool,
    pub evaluations: u64,
    pub distinct: BTreeSet<u64>,
    /// distinct cases counted rather than hashed (disjoint across shards by construction)
    pub distinct_extra: u64,
    pub counters: BTreeMap<String, u64>,
    pub maxima: BTreeMap<String, u64>,
    pub samples: Vec<String>,
    pub violations: BTreeMap<String, Violation>,
    pub notes: Vec<String>,
    pub cur_case: u64,
    pub exhaustive: bool,
    pub timed_out: bool,
    pub nonterm: u32,
}

impl Ctx {
    pub fn count(&mut self, key: &str) {
        *self.counters.entry(key.to_string()).or_insert(0) += 1;
    }
    pub fn count_n(&mut self, key: &str, n: u64) {
        *self.counters.entry(key.to_string()).or_insert(0) += n;
    }
    pub fn maximum(&mut self, key: &str, v: u64) {
        let e = self.maxima.entry(key.to_string()).or_insert(0);
        if v > *e {
            *e = v;
        }
    }
    /// Record a coverage signature; returns true when it is new.
    pub fn cover(&mut self, sig: &str) -> bool {
        self.distinct.insert(hash_bytes(sig.as_bytes()))
    }
    pub fn cover_h(&mut self, h: u64) -> bool {
        self.distinct.insert(h)
    }
    pub fn sample(&mut self, s: impl FnOnce() -> String) {
        if self.samples.len() < 6 {
            self.samples.push(s());
        }
    }
    pub fn violation(&mut self, property: &str, signature: String, detail: String, input: &[u8]) {
        if self.verbose {
            eprintln!(
                "VIOLATION {} sig={} case={} detail={}\n  input={}",
                property,
                signature,
                self.cur_case,
                detail,
                crate::model::msg::hex(input)
            );
        }
        if signature.contains("non-termination") {
            self.nonterm += 1;
        }
        let key = format!("{}|{}", property, signature);
        let case = self.cur_case;
        let phase = self.cur_phase.clone();
        self.violations
            .entry(key)
            .and_modify(|v| v.count += 1)
            .or_insert_with(|| Violation {
                property: property.to_string(),
                signature,
                detail,
                case,
                phase,
                input_hex: crate::model::msg::hex(&input[..input.len().min(4096)]),
                count: 1,
            });
    }
    pub fn out_of_time(&mut self) -> bool {
        // a tree on which the step budget keeps firing is already a violation; every further such case burns a
        // whole budget, so the phase is cut short (the run reports the violation, never "held")
        if self.nonterm >= 8 {
            if !self.notes.iter().any(|n| n.starts_with("stopped early")) {
                self.notes.push("stopped early: the step budget was exceeded 8 times".into());
            }
            return true;
        }
        if self.start.elapsed().as_secs_f64() > self.time_cap_s {
            self.timed_out = true;
            true
        } else {
            false
        }
    }
    /// Enter phase `name` and return the cases `0..n` owned by this shard
    /// (case k belongs to shard k % nshards). Under replay only the recorded
    /// (phase, case) is returned.
    pub fn phase(&mut self, name: &str, n: u64) -> Vec<u64> {
        self.cur_phase = name.to_string();
        if let Some(ph) = &self.only_phase {
            if ph != name {
                return vec![];
            }
        }
        if let Some(c) = self.only_case {
            return if c < n { vec![c] } else { vec![] };
        }
        (0..n).filter(|k| k % self.nshards == self.shard).collect()
    }
    pub fn replaying(&self) -> bool {
        self.only_case.is_some() || self.only_phase.is_some()
    }
    pub fn scaled(&self, n: u64) -> u64 {
        ((n as f64) * self.scale).max(1.0) as u64
    }
    pub fn begin_case(&mut self, case: u64) {
        self.cur_case = case;
        self.slot.set(case, crate::prng::hash_bytes(self.cur_phase.as_bytes()));
    }

    pub fn to_json(&self) -> String {
        let mut s = String::new();
        s.push('{');
        s.push_str(&format!("\"check\":{},", jstr(&self.check)));
        s.push_str(&format!("\"flavour\":{},", jstr(&self.flavour)));
        s.push_str(&format!("\"seed\":{},\"shard\":{},\"nshards\":{},", self.seed, self.shard, self.nshards));
        s.push_str(&format!("\"tier\":{},", jstr(&self.tier)));
        s.push_str(&format!("\"evaluations\":{},", self.evaluations));
        s.push_str(&format!("\"exhaustive\":{},", self.exhaustive));
        s.push_str(&format!("\"distinct_extra\":{},", self.distinct_extra));
        s.push_str(&format!("\"timed_out\":{},", self.timed_out));
        s.push_str(&format!("\"wall_s\":{:.3},", self.start.elapsed().as_secs_f64()));
        s.push_str("\"distinct\":[");
        for (i, h) in self.distinct.iter().enumerate() {
            if i > 0 {
                s.push(',');
            }
            s.push_str(&format!("\"{:016x}\"", h));
        }
        s.push_str("],\"counters\":{");
        for (i, (k, v)) in self.counters.iter().enumerate() {
            if i > 0 {
                s.push(',');
            }
            s.push_str(&format!("{}:{}", jstr(k), v));
        }
        s.push_str("},\"maxima\":{");
        for (i, (k, v)) in self.maxima.iter().enumerate() {
            if i > 0 {
                s.push(',');
            }
            s.push_str(&format!("{}:{}", jstr(k), v));
        }
        s.push_str("},\"samples\":[");
        for (i, v) in self.samples.iter().enumerate() {
            if i > 0 {
                s.push(',');
            }
            s.push_str(&jstr(v));
        }
        s.push_str("],\"notes\":[");
        for (i, v) in self.notes.iter().enumerate() {
            if i > 0 {
                s.push(',');
            }
            s.push_str(&jstr(v));
        }
        s.push_str("],\"violations\":[");
        for (i, v) in self.violations.values().enumerate() {
            if i > 0 {
                s.push(',');
            }
            s.push_str(&format!(
                "{{\"property\":{},\"signature\":{},\"detail\":{},\"case\":{},\"phase\":{},\"input_hex\":{},\"count\":{}}}",
                jstr(&v.property),
                jstr(&v.signature),
                jstr(&v.detail),
                v.case,
                jstr(&v.phase),
                jstr(&v.input_hex),
                v.count
            ));
        }
        s.push_str("]}");
        s
    }
}

pub fn jstr(s: &str) -> String {
    let mut o = String::with_capacity(s.len() + 2);
    o.push('"');
    for c in s.chars() {
        match c {
            '"' => o.push_str("\\\""),
            '\\' => o.push_str("\\\\"),
            '\n' => o.push_str("\\n"),
            '\r' => o.push_str("\\r"),
            '\t' => o.push_str("\\t"),
            c if (c as u32) < 0x20 => o.push_str(&format!("\\u{:04x}", c as u32)),
            c => o.push(c),
        }
    }
    o.push('"');
    o
}

//! RR text grammar: generator of (text, expected wire record) pairs and of
//! systematically damaged texts; reference for host-name text <-> wire.

use super::msg::*;
use crate::prng::Rng;

pub struct TextCase {
    pub text: String,
    pub wire: Vec<u8>,
    pub rec: Record,
    pub kind: &'static str,
}

/// A TXT record "x. 1 IN TXT <n bytes>" whose wire form is exactly `total` bytes long (15..=269), to land an
/// insertion on an exact packet size.
pub fn txt_of_wire_len(total: usize) -> Option<TextCase> {
    // (at least one byte of text: the library's grammar has no empty quoted string)
    if !(15..=14 + 255).contains(&total) {
        return None;
    }
    let n = total - 14;
    let name = Name::from_labels(&[b"x"]);
    let mut rd = vec![n as u8];
    rd.extend(std::iter::repeat(b'a').take(n));
    let rec = Record { name, rtype: T_TXT, class: 1, ttl: 1, rdata: RData::Opaque(rd) };
    let text = format!("x. 1 IN TXT \"{}\"", "a".repeat(n));
    let wire = rec.wire_literal();
    if wire.len() != total {
        return None;
    }
    Some(TextCase { text, wire, rec, kind: "TXT-exact-size" })
}

fn ws(rng: &mut Rng) -> String {
    // at least one horizontal whitespace
    let n = match rng.below(6) {
        0 => rng.range(2, 5),
        _ => 1,
    };
    (0..n).map(|_| if rng.chance(1, 4) { '\t' } else { ' ' }).collect()
}

fn opt_ws(rng: &mut Rng) -> String {
    if rng.chance(1, 3) {
        ws(rng)
    } else {
        String::new()
    }
}

fn mixcase(rng: &mut Rng, s: &str) -> String {
    s.chars()
        .map(|c| if rng.chance(1, 2) { c.to_ascii_lowercase() } else { c.to_ascii_uppercase() })
        .collect()
}

/// A label the text grammar accepts: letters, digits, '-' (not first), '_' (first only), <= 62 bytes
pub fn text_label(rng: &mut Rng, len: usize) -> Vec<u8> {
    let mut l = Vec::with_capacity(len);
    for i in 0..len {
        let c = if i == 0 {
            *rng.pick(b"abcxyzABCXYZ_mnq0189")
        } else {
            *rng.pick(b"abcxyzABCXYZ-mnq0189-")
        };
        l.push(c);
    }
    l
}

/// Host name in the supported text grammar. `max_wire`: bound on the wire length.
/// Never purely numeric (status of all-numeric names is not fixed by the property).
pub fn text_name(rng: &mut Rng, max_wire: usize) -> Name {
    if rng.chance(1, 24) {
        // the root name, written "."
        return Name::root();
    }
    let nl = match rng.below(12) {
        0 => rng.range(5, 40),
        1 => 1,
        _ => rng.range(1, 4),
    };
    let mut n = Name::root();
    for _ in 0..nl {
        let len = match rng.below(10) {
            0 => 62,
            1 => rng.range(40, 62),
            _ => rng.range(1, 10),
        };
        if n.wire_len() + len + 1 > max_wire {
            break;
        }
        n.0.push(text_label(rng, len));
    }
    if n.0.is_empty() {
        n.0.push(b"a".to_vec());
    }
    // make sure one label holds a letter
    if n.0.iter().all(|l| l.iter().all(|c| c.is_ascii_digit())) {
        n.0[0][0] = b'n';
    }
    n
}

pub fn name_to_text(n: &Name, trailing_dot: bool) -> String {
    if n.is_root() {
        return ".".to_string();
    }
    let mut s = String::new();
    for (i, l) in n.0.iter().enumerate() {
        if i > 0 {
            s.push('.');
        }
        s.push_str(std::str::from_utf8(l).unwrap());
    }
    if trailing_dot {
        s.push('.');
    }
    s
}

fn num_text(rng: &mut Rng, v: u64) -> String {
    if rng.chance(1, 8) {
        format!("{}{}", "0".repeat(rng.range(1, 3)), v)
    } else {
        v.to_string()
    }
}

fn pick_u32(rng: &mut Rng) -> u32 {
    match rng.below(6) {
        0 => 0,
        1 => u32::MAX,
        2 => u32::MAX - 1,
        3 => 3600,
        _ => rng.u32(),
    }
}

pub const TYPES: &[(&str, u16)] = &[
    ("A", T_A),
    ("AAAA", T_AAAA),
    ("NS", T_NS),
    ("CNAME", T_CNAME),
    ("PTR", T_PTR),
    ("TXT", T_TXT),
    ("MX", T_MX),
    ("SOA", T_SOA),
    ("DS", T_DS),
];

/// TXT payload and one of its textual spellings
fn txt_payload(rng: &mut Rng) -> (Vec<u8>, String) {
    let len = match rng.below(12) {
        0 => 255,
        1 => 256,
        2 => 254,
        3 => 510,
        4 => 511,
        5 => rng.range(600, 3825),
        6 => 3825,
        _ => rng.range(1, 60),
    };
    let mut data = Vec::with_capacity(len);
    let mut text = String::with_capacity(len + 8);
    for _ in 0..len {
        let c = match rng.below(10) {
            0 => rng.u8(),
            1 => *rng.pick(&[b'"', b'\\', 0u8, 255, 127, 31, 32]),
            _ => *rng.pick(b"abcdefghijklmnopqrstuvwxyz0123456789 =;-_.~!@#$%^&*()[]{}<>,/?:'|+"),
        };
        data.push(c);
        let printable = c > 31 && c < 128 && c != b'\\' && c != b'"';
        if printable && !rng.chance(1, 12) {
            text.push(c as char);
        } else {
            text.push_str(&format!("\\{:03}", c));
        }
    }
    (data, text)
}

fn ipv6_text(rng: &mut Rng, a: &[u8; 16]) -> String {
    let groups: Vec<u16> = (0..8).map(|i| u16::from_be_bytes([a[2 * i], a[2 * i + 1]])).collect();
    let full = groups
        .iter()
        .map(|g| if rng.chance(1, 2) { format!("{:x}", g) } else { format!("{:04X}", g) })
        .collect::<Vec<_>>()
        .join(":");
    if rng.chance(1, 2) {
        return full;
    }
    // the standard compressed spelling, unless it embeds dotted-quad notation
    let s = std::net::Ipv6Addr::from(*a).to_string();
    if s.contains('.') {
        full
    } else {
        s
    }
}

fn ipv6_bytes(rng: &mut Rng) -> [u8; 16] {
    let mut a = [0u8; 16];
    match rng.below(5) {
        0 => {}
        1 => a[15] = 1,
        2 => {
            a[0] = 0x20;
            a[1] = 0x01;
            a[2] = 0x0d;
            a[3] = 0xb8;
            a[15] = rng.u8();
        }
        3 => a = [0xff; 16],
        _ => a.copy_from_slice(&rng.bytes(16)),
    }
    a
}

/// A valid record text with its RFC 1035 wire form.
pub fn valid_text(rng: &mut Rng, force_type: Option<usize>) -> TextCase {
    let ti = force_type.unwrap_or_else(|| rng.below(TYPES.len()));
    let (tname, tcode) = TYPES[ti];
    // owner: wire <= 253 (the library's own limit for text names)
    let owner = if rng.chance(1, 12) { maximal_text_name(rng, 253) } else { text_name(rng, 120) };
    let ttl = pick_u32(rng);
    let mut text = String::new();
    text.push_str(&opt_ws(rng));
    text.push_str(&name_to_text(&owner, rng.chance(1, 2)));
    text.push_str(&ws(rng));
    text.push_str(&num_text(rng, ttl as u64));
    text.push_str(&ws(rng));
    text.push_str(&mixcase(rng, "IN"));
    text.push_str(&ws(rng));
    text.push_str(&mixcase(rng, tname));
    text.push_str(&ws(rng));
    let rdata = match tcode {
        T_A => {
            let a = [rng.u8(), *rng.pick(&[0u8, 255, 1, 10]), rng.u8(), rng.u8()];
            text.push_str(&format!("{}.{}.{}.{}", num_text(rng, a[0] as u64), num_text(rng, a[1] as u64), num_text(rng, a[2] as u64), num_text(rng, a[3] as u64)));
            RData::A(a)
        }
        T_AAAA => {
            let a = ipv6_bytes(rng);
            text.push_str(&ipv6_text(rng, &a));
            RData::Aaaa(a)
        }
        T_NS | T_CNAME | T_PTR => {
            let n = if rng.chance(1, 12) { maximal_text_name(rng, 253) } else { text_name(rng, 200) };
            text.push_str(&name_to_text(&n, rng.chance(1, 2)));
            RData::Name(n)
        }
        T_TXT => {
            let (data, t) = txt_payload(rng);
            text.push('"');
            text.push_str(&t);
            text.push('"');
            let mut rd = vec![];
            for ch in data.chunks(255) {
                rd.push(ch.len() as u8);
                rd.extend_from_slice(ch);
            }
            RData::Opaque(rd)
        }
        T_MX => {
            let p = *rng.pick(&[0u16, 65535, 1, 10, 256]);
            let n = if rng.chance(1, 10) { maximal_text_name(rng, 253) } else { text_name(rng, 200) };
            text.push_str(&num_text(rng, p as u64));
            text.push_str(&ws(rng));
            text.push_str(&name_to_text(&n, rng.chance(1, 2)));
            RData::Mx(p, n)
        }
        T_SOA => {
            let big = rng.chance(1, 10);
            let n1 = if big { maximal_text_name(rng, 253) } else { text_name(rng, 100) };
            let n2 = if big { maximal_text_name(rng, 253) } else { text_name(rng, 100) };
            let nums: Vec<u32> = (0..5).map(|_| pick_u32(rng)).collect();
            text.push_str(&name_to_text(&n1, rng.chance(1, 2)));
            text.push_str(&ws(rng));
            text.push_str(&name_to_text(&n2, rng.chance(1, 2)));
            text.push_str(&opt_ws(rng));
            text.push('(');
            let mut meta = [0u8; 20];
            for (i, v) in nums.iter().enumerate() {
                // horizontal whitespace only: that is all the property promises
                let sep = match rng.below(4) {
                    0 => " \t".to_string(),
                    1 => "  ".to_string(),
                    _ => " ".to_string(),
                };
                if i > 0 || rng.chance(1, 2) {
                    text.push_str(&sep);
                }
                text.push_str(&num_text(rng, *v as u64));
                meta[4 * i..4 * i + 4].copy_from_slice(&v.to_be_bytes());
            }
            if rng.chance(1, 2) {
                text.push(' ');
            }
            text.push(')');
            RData::Soa(n1, n2, meta)
        }
        _ => {
            // DS
            let kt = *rng.pick(&[0u16, 65535, 12345, 1]);
            let alg = *rng.pick(&[0u8, 255, 8, 13]);
            let dt = *rng.pick(&[0u8, 255, 1, 2]);
            let dl = match rng.below(5) {
                0 => 1,
                1 => 20,
                2 => 32,
                3 => 48,
                _ => rng.range(1, 64),
            };
            let dig = rng.bytes(dl);
            text.push_str(&format!("{}{}{}{}{}{}", num_text(rng, kt as u64), ws(rng), alg, ws(rng), dt, ws(rng)));
            for b in &dig {
                if rng.chance(1, 2) {
                    text.push_str(&format!("{:02x}", b));
                } else {
                    text.push_str(&format!("{:02X}", b));
                }
            }
            let mut rd = kt.to_be_bytes().to_vec();
            rd.push(alg);
            rd.push(dt);
            rd.extend_from_slice(&dig);
            RData::Opaque(rd)
        }
    };
    text.push_str(&opt_ws(rng));
    let rec = Record { name: owner, rtype: tcode, class: 1, ttl, rdata };
    TextCase { wire: rec.wire_literal(), rec, text, kind: tname }
}

/// A text name whose wire length is exactly `wire` (labels <= 62).
pub fn maximal_text_name(rng: &mut Rng, wire: usize) -> Name {
    let mut left = wire - 1;
    let mut n = Name::root();
    while left > 0 {
        let take = if left <= 63 { left } else if left - 63 == 1 { 62 } else { 63 };
        n.0.push(text_label(rng, take - 1));
        left -= take;
    }
    // first label must hold a letter
    n.0[0][0] = b'm';
    debug_assert_eq!(n.wire_len(), wire);
    n
}

/// Damage a valid text in a way whose invalidity does not depend on grammar corner cases.
pub fn damaged_text(rng: &mut Rng) -> (String, &'static str) {
    let which = rng.below(18);
    // canonical single-space spelling so that token surgery is unambiguous
    let owner = name_to_text(&text_name(rng, 60), true);
    let host = name_to_text(&text_name(rng, 60), true);
    let ttl = "300";
    match which {
        0 => {
            // a mandatory field missing
            let full: Vec<String> = vec![owner.clone(), ttl.into(), "IN".into(), "A".into(), "192.0.2.1".into()];
            let drop = rng.below(5);
            let t: Vec<String> = full.into_iter().enumerate().filter(|(i, _)| *i != drop).map(|(_, s)| s).collect();
            (t.join(" "), "missing-field")
        }
        1 => {
            let t = match rng.below(5) {
                0 => format!("{} {} IN A 192.0.2.1 extra", owner, ttl),
                1 => format!("{} {} IN MX 10 {} extra", owner, ttl, host),
                2 => format!("{} {} IN NS {} {}", owner, ttl, host, host),
                3 => format!("{} {} IN TXT \"a\" b", owner, ttl),
                _ => format!("{} {} IN DS 1 2 3 abcd ef", owner, ttl),
            };
            (t, "surplus-token")
        }
        2 => (format!("{} 4294967296 IN A 192.0.2.1", owner), "ttl-out-of-range"),
        3 => (format!("{} {} IN MX {} {}", owner, ttl, rng.pick(&["65536", "65536", "4294967296", "4294967306", "99999999999", "18446744073709551616"]), host), "preference-out-of-range"),
        4 => {
            let k = rng.below(4);
            let mut o = ["192", "0", "2", "1"];
            o[k] = "256";
            (format!("{} {} IN A {}", owner, ttl, o.join(".")), "octet-256")
        }
        5 => (format!("{} {} IN AAAA 1:2:3:4:5:6:7:8:9", owner, ttl), "ipv6-nine-groups"),
        6 => (format!("{} {} IN TXT \"unbalanced", owner, ttl), "unbalanced-quote"),
        7 => {
            let n = 2 * rng.range(0, 20) + 1;
            let h: String = (0..n).map(|_| *rng.pick(b"0123456789abcdef") as char).collect();
            (format!("{} {} IN DS 12345 8 2 {}", owner, ttl, h), "odd-length-digest")
        }
        8 => (format!("{} {} IN DS 12345 8 2 abcg12", owner, ttl), "non-hex-digest"),
        9 => (format!("{} {} IN DS {} 8 2 abcd", owner, ttl, rng.pick(&["65536", "4294967296", "4294967297", "99999999999"])), "keytag-out-of-range"),
        10 => (format!("{} {} IN DS 1 256 2 abcd", owner, ttl), "algorithm-out-of-range"),
        11 => (format!("{} {} IN SOA {} {} ( 1 2 3 4 )", owner, ttl, host, host), "soa-missing-number"),
        12 => (format!("{} {} IN A 192.0.2", owner, ttl), "ipv4-three-octets"),
        14 => {
            // a decimal escape above 255 is an out-of-range number
            let e = *rng.pick(&["\\256", "\\999", "\\300", "\\260"]);
            let at = rng.below(3);
            let parts = ["ab", "cd", "ef"];
            let mut t = String::new();
            for (i, p) in parts.iter().enumerate() {
                if i == at {
                    t.push_str(e);
                }
                t.push_str(p);
            }
            (format!("{} {} IN TXT \"{}\"", owner, ttl, t), "escape-out-of-range")
        }
        15 => (format!("{} {} IN MX 10", owner, ttl), "mx-missing-exchange"),
        16 | 17 => {
            // a name with an empty label (leading dot, or two dots in a row) is not a host name
            let spoil = |n: &str, rng: &mut Rng| -> String {
                if rng.chance(1, 2) || !n.trim_end_matches('.').contains('.') {
                    format!(".{}", n)
                } else {
                    n.replacen('.', "..", 1)
                }
            };
            let t = match rng.below(4) {
                0 => format!("{} {} IN A 192.0.2.1", spoil(&owner, rng), ttl),
                1 => format!("{} {} IN NS {}", owner, ttl, spoil(&host, rng)),
                2 => format!("{} {} IN MX 10 {}", owner, ttl, spoil(&host, rng)),
                _ => format!("{} {} IN SOA {} {} 1 2 3 4 5", owner, ttl, host, spoil(&host, rng)),
            };
            (t, "empty-label-in-name")
        }
        _ => (format!("{} {} IN AAAA 12345::1", owner, ttl), "ipv6-group-too-long"),
    }
}

// ---------------------------------------------------------------------------
// host names: text -> wire reference (C14)

#[derive(Debug, PartialEq, Eq, Clone, Copy)]
pub enum NameStatus {
    /// the statement requires acceptance
    MustAccept,
    /// the statement requires an error
    MustReject,
    /// either outcome is allowed; if accepted the output is still checked
    Either,
}

pub struct NameRef {
    pub status: NameStatus,
    /// labels of the text input (split at '.', a single trailing dot removed)
    pub labels: Vec<Vec<u8>>,
    pub absolute: bool,
}

/// Reference reading of a presentation-format host name, per the C14 statement.
/// `zone_wire_len`: wire length of the zone that would be appended (0 if none).
pub fn ref_text_name(s: &[u8], zone: Option<&Name>) -> NameRef {
    if s.is_empty() {
        return NameRef { status: NameStatus::Either, labels: vec![], absolute: false };
    }
    if s == b"." {
        return NameRef { status: NameStatus::Either, labels: vec![], absolute: true };
    }
    let absolute = s.ends_with(b".");
    let body = if absolute { &s[..s.len() - 1] } else { s };
    let labels: Vec<Vec<u8>> = body.split(|&c| c == b'.').map(|l| l.to_vec()).collect();
    let zone_extra = if absolute { 1 } else { zone.map(|z| z.wire_len()).unwrap_or(1) };
    let wire_len = labels.iter().map(|l| l.len() + 1).sum::<usize>() + zone_extra;
    let status = if labels.iter().any(|l| l.is_empty()) {
        NameStatus::MustReject
    } else if labels.iter().any(|l| l.len() > 63) || wire_len > 255 {
        NameStatus::MustReject
    } else if labels.iter().all(|l| {
        l.len() <= 62 && l.iter().all(|&c| c.is_ascii_alphanumeric() || c == b'-' || c == b'_')
    }) && wire_len <= 253
    {
        NameStatus::MustAccept
    } else {
        NameStatus::Either
    };
    NameRef { status, labels, absolute }
}

//! Reference recogniser / decoder: an independent, deliberately naive
//! executable statement of "what the bytes say" and of the parser's
//! acceptance policy (property C02), written from the property text and
//! RFC 1035. Returns either the violated clause or the decoded message plus a
//! layout map.

use super::msg::*;

#[derive(Clone, Copy, PartialEq, Eq, Debug, Hash, PartialOrd, Ord)]
pub enum Clause {
    ShortHeader,
    QdCount,
    QuestionName,
    QuestionTruncated,
    QuestionClass,
    QrGatingAn,
    QrGatingNs,
    OwnerName,
    RrTruncated,
    RdataOverrun,
    ALen,
    AaaaLen,
    NameRdataShort,
    NameRdataName,
    NameRdataSlack,
    DnameName,
    OptSection,
    OptOwner,
    OptDuplicate,
    OptTiling,
    TrailingBytes,
}

impl Clause {
    pub fn as_str(&self) -> &'static str {
        match self {
            Clause::ShortHeader => "short-header",
            Clause::QdCount => "qdcount!=1",
            Clause::QuestionName => "question-name",
            Clause::QuestionTruncated => "question-truncated",
            Clause::QuestionClass => "question-class",
            Clause::QrGatingAn => "qr-gating-an",
            Clause::QrGatingNs => "qr-gating-ns",
            Clause::OwnerName => "owner-name",
            Clause::RrTruncated => "rr-truncated",
            Clause::RdataOverrun => "rdata-overrun",
            Clause::ALen => "a-len",
            Clause::AaaaLen => "aaaa-len",
            Clause::NameRdataShort => "name-rdata-short",
            Clause::NameRdataName => "name-rdata-name",
            Clause::NameRdataSlack => "name-rdata-slack",
            Clause::DnameName => "dname-name",
            Clause::OptSection => "opt-section",
            Clause::OptOwner => "opt-owner",
            Clause::OptDuplicate => "opt-duplicate",
            Clause::OptTiling => "opt-tiling",
            Clause::TrailingBytes => "trailing-bytes",
        }
    }
}

/// Why a name is not well-formed (sub-clause; only used for statistics).
#[derive(Clone, Copy, PartialEq, Eq, Debug, Hash, PartialOrd, Ord)]
pub enum NameErr {
    StartOutside,
    Truncated,
    Barrier,
    TooManyPointers,
    PointerTruncated,
    PointerForward,
    PointerToRoot,
    LabelType,
    LabelOverrun,
    TooLong,
    BadChar,
    PointerInDname,
}

impl NameErr {
    pub fn as_str(&self) -> &'static str {
        match self {
            NameErr::StartOutside => "name-start-outside",
            NameErr::Truncated => "name-truncated",
            NameErr::Barrier => "pointer-barrier",
            NameErr::TooManyPointers => "pointer>16",
            NameErr::PointerTruncated => "pointer-truncated",
            NameErr::PointerForward => "pointer-forward",
            NameErr::PointerToRoot => "pointer-to-root",
            NameErr::LabelType => "label>63",
            NameErr::LabelOverrun => "label-overrun",
            NameErr::TooLong => "name>255",
            NameErr::BadChar => "bad-char",
            NameErr::PointerInDname => "pointer-in-dname",
        }
    }
}

#[derive(Clone, Debug)]
pub struct NameInfo {
    pub name: Name,
    /// offset right after the name as it appears in place
    pub end: usize,
    pub pointers: usize,
    /// lowest offset read while decoding
    pub lowest: usize,
}

fn bad_char(c: u8) -> bool {
    c < 0x20 || c == 0x7f || c == b'.' || c == b'\\'
}

/// The name policy of C02 for names that may be compressed.
///
/// A name is a sequence of segments S0..Sk (k <= 16). Each segment is a run
/// of labels (1..63 bytes, no control byte, '.' or '\'); all but the last end
/// in a 2-byte pointer, the last in the root label. start(S_{i+1}) <
/// start(S_i); every item of S_{i+1} starts before start(S_i); items of S0
/// start inside the packet; a label must be followed by at least one more
/// byte of packet; a pointer never targets a root label; the expanded length
/// including the root is at most 255.
pub fn ref_name(p: &[u8], start: usize) -> Result<NameInfo, NameErr> {
    let len = p.len();
    if start >= len {
        return Err(NameErr::StartOutside);
    }
    let mut labels: Vec<Vec<u8>> = vec![];
    let mut total = 0usize;
    let mut pointers = 0usize;
    let mut seg_start = start;
    let mut item_limit = len; // items of the current segment must start below this
    let mut pos = start;
    let mut end = None;
    let mut lowest = start;
    loop {
        if pos >= item_limit {
            return Err(if pos >= len {
                NameErr::Truncated
            } else {
                NameErr::Barrier
            });
        }
        let b = p[pos];
        if b >= 0xc0 {
            if pointers == 16 {
                return Err(NameErr::TooManyPointers);
            }
            if pos + 1 >= len {
                return Err(NameErr::PointerTruncated);
            }
            let target = (((b & 0x3f) as usize) << 8) | p[pos + 1] as usize;
            if target >= seg_start {
                return Err(NameErr::PointerForward);
            }
            if p[target] == 0 {
                return Err(NameErr::PointerToRoot);
            }
            pointers += 1;
            if end.is_none() {
                end = Some(pos + 2);
            }
            item_limit = seg_start;
            seg_start = target;
            pos = target;
            lowest = lowest.min(target);
            continue;
        }
        if b >= 0x40 {
            return Err(NameErr::LabelType);
        }
        let l = b as usize;
        if pos + l >= len {
            return Err(NameErr::LabelOverrun);
        }
        total += l + 1;
        if total > 255 {
            return Err(NameErr::TooLong);
        }
        let lab = &p[pos + 1..pos + 1 + l];
        if lab.iter().any(|&c| bad_char(c)) {
            return Err(NameErr::BadChar);
        }
        pos += l + 1;
        if l == 0 {
            break;
        }
        labels.push(lab.to_vec());
    }
    Ok(NameInfo {
        name: Name(labels),
        end: end.unwrap_or(pos),
        pointers,
        lowest,
    })
}

/// Pointer-free name with arbitrary label bytes (DNAME targets, names given
/// to the mutation API).
pub fn ref_uncompressed_name(p: &[u8], start: usize) -> Result<NameInfo, NameErr> {
    let len = p.len();
    if start >= len {
        return Err(NameErr::StartOutside);
    }
    let mut labels = vec![];
    let mut total = 0;
    let mut pos = start;
    loop {
        if pos >= len {
            return Err(NameErr::Truncated);
        }
        let b = p[pos];
        if b >= 0xc0 {
            return Err(NameErr::PointerInDname);
        }
        if b >= 0x40 {
            return Err(NameErr::LabelType);
        }
        let l = b as usize;
        if pos + l >= len {
            return Err(NameErr::LabelOverrun);
        }
        total += l + 1;
        if total > 255 {
            return Err(NameErr::TooLong);
        }
        let lab = &p[pos + 1..pos + 1 + l];
        pos += l + 1;
        if l == 0 {
            break;
        }
        labels.push(lab.to_vec());
    }
    Ok(NameInfo {
        name: Name(labels),
        end: pos,
        pointers: 0,
        lowest: start,
    })
}

#[derive(Clone, Debug, PartialEq, Eq)]
pub struct RecLayout {
    pub off: usize,
    pub name_end: usize,
    pub end: usize,
}

#[derive(Clone, Debug, Default, PartialEq, Eq)]
pub struct OptLayout {
    pub rec_off: usize,
    /// offset of the first option == end of the 11-byte OPT fixed part
    pub options_start: usize,
    pub option_offs: Vec<usize>,
    /// index of the OPT record within the additional section
    pub index: usize,
}

#[derive(Clone, Debug, Default)]
pub struct Layout {
    pub question: Vec<RecLayout>,
    pub sec: [Vec<RecLayout>; 3],
    pub opt: Option<OptLayout>,
    /// pointers used by names the library understands
    pub pointers: usize,
    pub max_chain: usize,
    pub ptr_into_header: bool,
}

impl Layout {
    pub fn sec_start(&self, s: usize) -> Option<usize> {
        self.sec[s].first().map(|r| r.off)
    }
    /// offsets of every record boundary: the start of each record (question
    /// included) in wire order
    pub fn record_starts(&self) -> Vec<usize> {
        let mut v: Vec<usize> = self.question.iter().map(|r| r.off).collect();
        for s in 0..3 {
            v.extend(self.sec[s].iter().map(|r| r.off));
        }
        v
    }
}

#[derive(Clone, Debug)]
pub struct Decoded {
    pub msg: Msg,
    pub layout: Layout,
}

#[derive(Clone, Copy, Default, Debug)]
pub struct Relax {
    /// accept qdcount == 0 (states produced by the builder API)
    pub no_question: bool,
    /// accept answer/authority records in a query (states produced by the builder API)
    pub query_with_records: bool,
}

pub const STRICT: Relax = Relax {
    no_question: false,
    query_with_records: false,
};

#[derive(Clone, Debug)]
pub struct Reject {
    pub clause: Clause,
    pub name_err: Option<NameErr>,
    pub at: usize,
}

fn rej(clause: Clause, at: usize) -> Reject {
    Reject {
        clause,
        name_err: None,
        at,
    }
}
fn rejn(clause: Clause, e: NameErr, at: usize) -> Reject {
    Reject {
        clause,
        name_err: Some(e),
        at,
    }
}

fn be16(p: &[u8], o: usize) -> u16 {
    ((p[o] as u16) << 8) | p[o + 1] as u16
}
fn be32(p: &[u8], o: usize) -> u32 {
    ((be16(p, o) as u32) << 16) | be16(p, o + 2) as u32
}

pub fn refparse(p: &[u8], relax: Relax) -> Result<Decoded, Reject> {
    let len = p.len();
    if len < 12 {
        return Err(rej(Clause::ShortHeader, len));
    }
    let mut msg = Msg {
        id: be16(p, 0),
        flags: be16(p, 2),
        ..Default::default()
    };
    let mut layout = Layout::default();
    let qd = be16(p, 4) as usize;
    let counts = [be16(p, 6) as usize, be16(p, 8) as usize, be16(p, 10) as usize];
    if !(qd == 1 || (qd == 0 && relax.no_question)) {
        return Err(rej(Clause::QdCount, 4));
    }
    let mut pos = 12;
    let track = |layout: &mut Layout, ni: &NameInfo| {
        layout.pointers += ni.pointers;
        layout.max_chain = layout.max_chain.max(ni.pointers);
        if ni.lowest < 12 {
            layout.ptr_into_header = true;
        }
    };
    for _ in 0..qd {
        let ni = ref_name(p, pos).map_err(|e| rejn(Clause::QuestionName, e, pos))?;
        if ni.end + 4 > len {
            return Err(rej(Clause::QuestionTruncated, ni.end));
        }
        let (qtype, qclass) = (be16(p, ni.end), be16(p, ni.end + 2));
        if qclass != 1 {
            return Err(rej(Clause::QuestionClass, ni.end + 2));
        }
        track(&mut layout, &ni);
        layout.question.push(RecLayout {
            off: pos,
            name_end: ni.end,
            end: ni.end + 4,
        });
        msg.question.push(Question {
            name: ni.name,
            qtype,
            qclass,
        });
        pos = ni.end + 4;
    }
    let is_response = msg.flags & 0x8000 != 0;
    if !is_response && !relax.query_with_records {
        if counts[0] > 0 {
            return Err(rej(Clause::QrGatingAn, 6));
        }
        if counts[1] > 0 {
            return Err(rej(Clause::QrGatingNs, 8));
        }
    }
    for s in 0..3 {
        for idx in 0..counts[s] {
            let off = pos;
            let ni = ref_name(p, pos).map_err(|e| rejn(Clause::OwnerName, e, pos))?;
            let h = ni.end;
            if h + 10 > len {
                return Err(rej(Clause::RrTruncated, h));
            }
            let rtype = be16(p, h);
            let class = be16(p, h + 2);
            let ttl = be32(p, h + 4);
            let rdlen = be16(p, h + 8) as usize;
            let rd = h + 10;
            // OPT is judged before the generic "rdata inside the packet" rule
            if rtype == T_OPT {
                if s != SEC_AR {
                    return Err(rej(Clause::OptSection, off));
                }
                if !(ni.pointers == 0 && ni.name.is_root()) {
                    return Err(rej(Clause::OptOwner, off));
                }
                if layout.opt.is_some() {
                    return Err(rej(Clause::OptDuplicate, off));
                }
                if rd + rdlen > len {
                    return Err(rej(Clause::RdataOverrun, h + 8));
                }
                let mut o = rd;
                let endo = rd + rdlen;
                let mut opts = vec![];
                let mut offs = vec![];
                while o < endo {
                    if o + 4 > endo {
                        return Err(rej(Clause::OptTiling, o));
                    }
                    let code = be16(p, o);
                    let ol = be16(p, o + 2) as usize;
                    if o + 4 + ol > endo {
                        return Err(rej(Clause::OptTiling, o));
                    }
                    offs.push(o);
                    opts.push((code, p[o + 4..o + 4 + ol].to_vec()));
                    o += 4 + ol;
                }
                layout.opt = Some(OptLayout {
                    rec_off: off,
                    options_start: rd,
                    option_offs: offs,
                    index: idx,
                });
                layout.sec[s].push(RecLayout {
                    off,
                    name_end: h,
                    end: endo,
                });
                msg.sec[s].push(Record {
                    name: ni.name,
                    rtype,
                    class,
                    ttl,
                    rdata: RData::Opt(opts),
                });
                pos = endo;
                continue;
            }
            let rdata = match rtype {
                T_NS | T_CNAME | T_PTR => {
                    if rdlen == 0 {
                        return Err(rej(Clause::NameRdataShort, h + 8));
                    }
                    let n = ref_name(p, rd).map_err(|e| rejn(Clause::NameRdataName, e, rd))?;
                    if n.end - rd != rdlen {
                        return Err(rej(Clause::NameRdataSlack, h + 8));
                    }
                    track(&mut layout, &n);
                    RData::Name(n.name)
                }
                T_MX => {
                    if rdlen <= 2 {
                        return Err(rej(Clause::NameRdataShort, h + 8));
                    }
                    let n =
                        ref_name(p, rd + 2).map_err(|e| rejn(Clause::NameRdataName, e, rd + 2))?;
                    if n.end - rd != rdlen {
                        return Err(rej(Clause::NameRdataSlack, h + 8));
                    }
                    track(&mut layout, &n);
                    RData::Mx(be16(p, rd), n.name)
                }
                T_SOA => {
                    if rdlen <= 21 {
                        return Err(rej(Clause::NameRdataShort, h + 8));
                    }
                    let n1 = ref_name(p, rd).map_err(|e| rejn(Clause::NameRdataName, e, rd))?;
                    let n2 =
                        ref_name(p, n1.end).map_err(|e| rejn(Clause::NameRdataName, e, n1.end))?;
                    if n2.end - rd + 20 != rdlen {
                        return Err(rej(Clause::NameRdataSlack, h + 8));
                    }
                    if rd + rdlen > len {
                        return Err(rej(Clause::RdataOverrun, h + 8));
                    }
                    track(&mut layout, &n1);
                    track(&mut layout, &n2);
                    let mut m = [0u8; 20];
                    m.copy_from_slice(&p[n2.end..n2.end + 20]);
                    RData::Soa(n1.name, n2.name, m)
                }
                T_DNAME => {
                    if rdlen == 0 {
                        return Err(rej(Clause::NameRdataShort, h + 8));
                    }
                    let n = ref_uncompressed_name(p, rd)
                        .map_err(|e| rejn(Clause::DnameName, e, rd))?;
                    if n.end - rd != rdlen {
                        return Err(rej(Clause::NameRdataSlack, h + 8));
                    }
                    RData::Dname(n.name)
                }
                T_A => {
                    if rdlen != 4 {
                        return Err(rej(Clause::ALen, h + 8));
                    }
                    if rd + 4 > len {
                        return Err(rej(Clause::RdataOverrun, h + 8));
                    }
                    let mut a = [0u8; 4];
                    a.copy_from_slice(&p[rd..rd + 4]);
                    RData::A(a)
                }
                T_AAAA => {
                    if rdlen != 16 {
                        return Err(rej(Clause::AaaaLen, h + 8));
                    }
                    if rd + 16 > len {
                        return Err(rej(Clause::RdataOverrun, h + 8));
                    }
                    let mut a = [0u8; 16];
                    a.copy_from_slice(&p[rd..rd + 16]);
                    RData::Aaaa(a)
                }
                _ => {
                    if rd + rdlen > len {
                        return Err(rej(Clause::RdataOverrun, h + 8));
                    }
                    RData::Opaque(p[rd..rd + rdlen].to_vec())
                }
            };
            track(&mut layout, &ni);
            layout.sec[s].push(RecLayout {
                off,
                name_end: h,
                end: rd + rdlen,
            });
            msg.sec[s].push(Record {
                name: ni.name,
                rtype,
                class,
                ttl,
                rdata,
            });
            pos = rd + rdlen;
        }
    }
    if pos != len {
        return Err(rej(Clause::TrailingBytes, pos));
    }
    Ok(Decoded { msg, layout })
}

pub fn accepts(p: &[u8]) -> bool {
    refparse(p, STRICT).is_ok()
}

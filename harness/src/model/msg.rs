//! Abstract DNS message: what a packet *means*, independent of layout.

pub const T_A: u16 = 1;
pub const T_NS: u16 = 2;
pub const T_CNAME: u16 = 5;
pub const T_SOA: u16 = 6;
pub const T_PTR: u16 = 12;
pub const T_MX: u16 = 15;
pub const T_TXT: u16 = 16;
pub const T_AAAA: u16 = 28;
pub const T_DNAME: u16 = 39;
pub const T_OPT: u16 = 41;
pub const T_DS: u16 = 43;

#[derive(Clone, PartialEq, Eq, Hash, Default)]
pub struct Name(pub Vec<Vec<u8>>);

impl std::fmt::Debug for Name {
    fn fmt(&self, f: &mut std::fmt::Formatter<'_>) -> std::fmt::Result {
        write!(f, "\"")?;
        if self.0.is_empty() {
            write!(f, ".")?;
        }
        for l in &self.0 {
            for &c in l {
                if c.is_ascii_graphic() && c != b'.' && c != b'\\' && c != b'"' {
                    write!(f, "{}", c as char)?;
                } else {
                    write!(f, "\\{:03}", c)?;
                }
            }
            write!(f, ".")?;
        }
        write!(f, "\"")
    }
}

impl Name {
    pub fn root() -> Self {
        Name(vec![])
    }
    pub fn from_labels(ls: &[&[u8]]) -> Self {
        Name(ls.iter().map(|l| l.to_vec()).collect())
    }
    pub fn is_root(&self) -> bool {
        self.0.is_empty()
    }
    /// length on the wire, fully expanded, including the root byte
    pub fn wire_len(&self) -> usize {
        self.0.iter().map(|l| l.len() + 1).sum::<usize>() + 1
    }
    pub fn to_wire(&self) -> Vec<u8> {
        let mut v = Vec::with_capacity(self.wire_len());
        self.write_wire(&mut v);
        v
    }
    pub fn write_wire(&self, v: &mut Vec<u8>) {
        for l in &self.0 {
            v.push(l.len() as u8);
            v.extend_from_slice(l);
        }
        v.push(0);
    }
    /// parse a pointer-free wire name (labels <= 63, terminated); None if malformed
    pub fn from_wire(w: &[u8]) -> Option<(Name, usize)> {
        let mut i = 0;
        let mut ls = vec![];
        loop {
            let l = *w.get(i)? as usize;
            if l > 63 {
                return None;
            }
            i += 1;
            if l == 0 {
                break;
            }
            ls.push(w.get(i..i + l)?.to_vec());
            i += l;
        }
        Some((Name(ls), i))
    }
    pub fn eq_nocase(&self, o: &Name) -> bool {
        self.0.len() == o.0.len()
            && self
                .0
                .iter()
                .zip(o.0.iter())
                .all(|(a, b)| a.eq_ignore_ascii_case(b))
    }
    pub fn eq_mode(&self, o: &Name, nocase: bool) -> bool {
        if nocase {
            self.eq_nocase(o)
        } else {
            self == o
        }
    }
    /// does `self` end with `suffix` on a label boundary, ignoring ASCII case
    pub fn ends_with_nocase(&self, suffix: &Name) -> bool {
        let (n, m) = (self.0.len(), suffix.0.len());
        m <= n
            && self.0[n - m..]
                .iter()
                .zip(suffix.0.iter())
                .all(|(a, b)| a.eq_ignore_ascii_case(b))
    }
    /// the library's text rendering: labels joined by '.', a '.' inside a label
    /// written as "\046", ASCII-lowercased; root is the empty string
    pub fn to_text_lower(&self) -> Vec<u8> {
        let mut v = vec![];
        for (i, l) in self.0.iter().enumerate() {
            if i > 0 {
                v.push(b'.');
            }
            for &c in l {
                if c == b'.' {
                    v.extend_from_slice(b"\\046");
                } else {
                    v.push(c.to_ascii_lowercase());
                }
            }
        }
        v
    }
    pub fn lower(&self) -> Name {
        Name(self.0.iter().map(|l| l.to_ascii_lowercase()).collect())
    }
    pub fn concat(&self, o: &Name) -> Name {
        let mut v = self.0.clone();
        v.extend(o.0.iter().cloned());
        Name(v)
    }
}

#[derive(Clone, PartialEq, Eq, Debug, Hash)]
pub enum RData {
    A([u8; 4]),
    Aaaa([u8; 16]),
    /// NS, CNAME, PTR
    Name(Name),
    Mx(u16, Name),
    Soa(Name, Name, [u8; 20]),
    /// DNAME: pointer-free, any bytes
    Dname(Name),
    /// OPT options (code, data)
    Opt(Vec<(u16, Vec<u8>)>),
    Opaque(Vec<u8>),
}

impl RData {
    pub fn wire_literal(&self) -> Vec<u8> {
        let mut v = vec![];
        match self {
            RData::A(a) => v.extend_from_slice(a),
            RData::Aaaa(a) => v.extend_from_slice(a),
            RData::Name(n) | RData::Dname(n) => n.write_wire(&mut v),
            RData::Mx(p, n) => {
                v.extend_from_slice(&p.to_be_bytes());
                n.write_wire(&mut v);
            }
            RData::Soa(a, b, m) => {
                a.write_wire(&mut v);
                b.write_wire(&mut v);
                v.extend_from_slice(m);
            }
            RData::Opt(opts) => {
                for (c, d) in opts {
                    v.extend_from_slice(&c.to_be_bytes());
                    v.extend_from_slice(&(d.len() as u16).to_be_bytes());
                    v.extend_from_slice(d);
                }
            }
            RData::Opaque(d) => v.extend_from_slice(d),
        }
        v
    }
    pub fn names(&self) -> Vec<&Name> {
        match self {
            RData::Name(n) | RData::Mx(_, n) => vec![n],
            RData::Soa(a, b, _) => vec![a, b],
            _ => vec![],
        }
    }
    pub fn eq_mode(&self, o: &RData, nocase: bool) -> bool {
        match (self, o) {
            (RData::Name(a), RData::Name(b)) => a.eq_mode(b, nocase),
            (RData::Mx(p, a), RData::Mx(q, b)) => p == q && a.eq_mode(b, nocase),
            (RData::Soa(a1, a2, m), RData::Soa(b1, b2, n)) => {
                a1.eq_mode(b1, nocase) && a2.eq_mode(b2, nocase) && m == n
            }
            _ => self == o,
        }
    }
}

#[derive(Clone, PartialEq, Eq, Debug, Hash)]
pub struct Record {
    pub name: Name,
    pub rtype: u16,
    pub class: u16,
    pub ttl: u32,
    pub rdata: RData,
}

impl Record {
    pub fn wire_literal(&self) -> Vec<u8> {
        let mut v = self.name.to_wire();
        v.extend_from_slice(&self.rtype.to_be_bytes());
        v.extend_from_slice(&self.class.to_be_bytes());
        v.extend_from_slice(&self.ttl.to_be_bytes());
        let rd = self.rdata.wire_literal();
        v.extend_from_slice(&(rd.len() as u16).to_be_bytes());
        v.extend_from_slice(&rd);
        v
    }
    pub fn is_opt(&self) -> bool {
        self.rtype == T_OPT
    }
    pub fn eq_mode(&self, o: &Record, nocase: bool) -> bool {
        self.name.eq_mode(&o.name, nocase)
            && self.rtype == o.rtype
            && self.class == o.class
            && self.ttl == o.ttl
            && self.rdata.eq_mode(&o.rdata, nocase)
    }
}

#[derive(Clone, PartialEq, Eq, Debug, Hash)]
pub struct Question {
    pub name: Name,
    pub qtype: u16,
    pub qclass: u16,
}

impl Question {
    pub fn wire_literal(&self) -> Vec<u8> {
        let mut v = self.name.to_wire();
        v.extend_from_slice(&self.qtype.to_be_bytes());
        v.extend_from_slice(&self.qclass.to_be_bytes());
        v
    }
}

pub const SEC_AN: usize = 0;
pub const SEC_NS: usize = 1;
pub const SEC_AR: usize = 2;

#[derive(Clone, PartialEq, Eq, Debug, Hash, Default)]
pub struct Msg {
    pub id: u16,
    pub flags: u16,
    pub question: Vec<Question>,
    pub sec: [Vec<Record>; 3],
}

impl Msg {
    pub fn header(&self) -> [u8; 12] {
        let mut h = [0u8; 12];
        h[0..2].copy_from_slice(&self.id.to_be_bytes());
        h[2..4].copy_from_slice(&self.flags.to_be_bytes());
        h[4..6].copy_from_slice(&(self.question.len() as u16).to_be_bytes());
        for s in 0..3 {
            h[6 + 2 * s..8 + 2 * s].copy_from_slice(&(self.sec[s].len() as u16).to_be_bytes());
        }
        h
    }
    /// canonical pointer-free encoding
    pub fn encode_literal(&self) -> Vec<u8> {
        let mut v = self.header().to_vec();
        for q in &self.question {
            v.extend_from_slice(&q.wire_literal());
        }
        for s in 0..3 {
            for r in &self.sec[s] {
                v.extend_from_slice(&r.wire_literal());
            }
        }
        v
    }
    pub fn is_response(&self) -> bool {
        self.flags & 0x8000 != 0
    }
    pub fn opt(&self) -> Option<&Record> {
        self.sec[SEC_AR].iter().find(|r| r.is_opt())
    }
    pub fn n_records(&self) -> usize {
        self.sec.iter().map(|s| s.len()).sum()
    }
    /// First difference between two messages, or None when equal.
    /// `nocase`: names compared ignoring ASCII case (question name too unless
    /// `question_exact`).
    pub fn diff(&self, o: &Msg, nocase: bool, question_exact: bool) -> Option<String> {
        if self.id != o.id {
            return Some(format!("id {:#06x} != {:#06x}", self.id, o.id));
        }
        if self.flags != o.flags {
            return Some(format!("flags {:#06x} != {:#06x}", self.flags, o.flags));
        }
        if self.question.len() != o.question.len() {
            return Some(format!(
                "qdcount {} != {}",
                self.question.len(),
                o.question.len()
            ));
        }
        for (i, (a, b)) in self.question.iter().zip(o.question.iter()).enumerate() {
            let nc = nocase && !question_exact;
            if !a.name.eq_mode(&b.name, nc) || a.qtype != b.qtype || a.qclass != b.qclass {
                return Some(format!("question[{}] {:?} != {:?}", i, a, b));
            }
        }
        const SN: [&str; 3] = ["answer", "authority", "additional"];
        for s in 0..3 {
            if self.sec[s].len() != o.sec[s].len() {
                return Some(format!(
                    "{} count {} != {}",
                    SN[s],
                    self.sec[s].len(),
                    o.sec[s].len()
                ));
            }
            for (i, (a, b)) in self.sec[s].iter().zip(o.sec[s].iter()).enumerate() {
                if !a.eq_mode(b, nocase) {
                    return Some(format!("{}[{}] {:?} != {:?}", SN[s], i, a, b));
                }
            }
        }
        None
    }
}

impl Msg {
    /// Like `diff`, but the *position* of records inside a section is not compared: each section must hold the
    /// same records (as a multiset), and the records other than `new` must keep their relative order.
    pub fn diff_unordered_insert(&self, want: &Msg, new: &[(usize, Record)]) -> Option<String> {
        let mut a = self.clone();
        let mut w = want.clone();
        // remove the inserted records from both sides (any position), then compare in order
        for (s, r) in new {
            match a.sec[*s].iter().position(|x| x.eq_mode(r, false)) {
                Some(i) => {
                    a.sec[*s].remove(i);
                }
                None => return Some(format!("section {} does not hold the inserted record {:?}", s, r)),
            }
            if let Some(i) = w.sec[*s].iter().rposition(|x| x.eq_mode(r, false)) {
                w.sec[*s].remove(i);
            }
        }
        a.diff(&w, false, true)
    }
}

pub fn hex(b: &[u8]) -> String {
    let mut s = String::with_capacity(b.len() * 2);
    for c in b {
        s.push_str(&format!("{:02x}", c));
    }
    s
}

pub fn unhex(s: &str) -> Vec<u8> {
    let s: Vec<u8> = s.bytes().filter(|c| c.is_ascii_hexdigit()).collect();
    s.chunks(2)
        .map(|p| u8::from_str_radix(std::str::from_utf8(p).unwrap(), 16).unwrap())
        .collect()
}

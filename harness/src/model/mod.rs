pub mod msg;
pub mod refparse;
pub mod text;

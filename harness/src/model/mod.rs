pub mod msg;
pub mod refparse;

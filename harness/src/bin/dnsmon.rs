//! dnsmon run --check C01 --seed S --tier quick --shard i --nshards N --out f.json [--slot f] [--scale x]
//!        [--time-cap s] [--case k] [--verbose] [--flavour name]

use std::time::Instant;

use dnsmon::mon::{install_panic_hook, CountingAlloc, Ctx, Slot};

#[global_allocator]
static GLOBAL: CountingAlloc = CountingAlloc;

fn main() {
    let args: Vec<String> = std::env::args().collect();
    let get = |k: &str| -> Option<String> {
        args.iter().position(|a| a == k).and_then(|i| args.get(i + 1).cloned())
    };
    let has = |k: &str| args.iter().any(|a| a == k);
    if args.len() >= 3 && args[1] == "pure-one" {
        std::process::exit(dnsmon::checks::c17::pure_one(&args[2]));
    }
    if args.len() >= 4 && args[1] == "dump-corpus" {
        let n = dnsmon::checks::fuzz::dump_corpus(&args[2], args[3].parse().unwrap_or(1)).expect("dump corpus");
        println!("{}", n);
        return;
    }
    if args.len() >= 4 && args[1] == "fuzz-one" {
        // re-run one fuzz artifact through the target's oracles and print the context
        let data = std::fs::read(&args[3]).expect("read artifact");
        let ctx = dnsmon::checks::fuzz::run_target(&args[2], &data, false);
        println!("{}", ctx.to_json());
        return;
    }
    if args.len() >= 2 && args[1] == "noop" {
        return;
    }
    if args.len() < 2 || args[1] != "run" {
        eprintln!("usage: dnsmon run --check Cxx --seed S --tier quick|thorough --shard i --nshards N --out file");
        std::process::exit(64);
    }
    install_panic_hook();
    let mut ctx = Ctx {
        check: get("--check").expect("--check"),
        seed: get("--seed").map(|s| s.parse().unwrap()).unwrap_or(1),
        shard: get("--shard").map(|s| s.parse().unwrap()).unwrap_or(0),
        nshards: get("--nshards").map(|s| s.parse().unwrap()).unwrap_or(1),
        tier: get("--tier").unwrap_or_else(|| "quick".into()),
        flavour: get("--flavour").unwrap_or_else(|| "unknown".into()),
        scale: get("--scale").map(|s| s.parse().unwrap()).unwrap_or(1.0),
        slot: Slot::open(get("--slot").as_deref()),
        start: Instant::now(),
        time_cap_s: get("--time-cap").map(|s| s.parse().unwrap()).unwrap_or(600.0),
        only_case: get("--case").map(|s| s.parse().unwrap()),
        only_phase: get("--phase"),
        cur_phase: String::new(),
        verbose: has("--verbose"),
        evaluations: 0,
        distinct: Default::default(),
        distinct_extra: 0,
        counters: Default::default(),
        maxima: Default::default(),
        samples: vec![],
        violations: Default::default(),
        notes: vec![],
        cur_case: 0,
        exhaustive: false,
        timed_out: false,
        nonterm: 0,
    };
    if !dnsmon::checks::run(&mut ctx) {
        eprintln!("unknown check {}", ctx.check);
        std::process::exit(64);
    }
    ctx.slot.clear();
    let js = ctx.to_json();
    match get("--out") {
        Some(p) => std::fs::write(p, js).expect("write --out"),
        None => println!("{}", js),
    }
}

//! dnsmon: runtime monitors for jedisct1/dnssector (see /verif/DESIGN.md).
#![allow(clippy::all)]
#![allow(dead_code)]

pub mod capi;
pub mod checks;
pub mod gen;
pub mod model;
pub mod mon;
pub mod prng;

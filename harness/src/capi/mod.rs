//! Hook scripts for the C function table (C15).
//!
//! `generate()` draws a script while executing it NATIVELY (so that only
//! operations respecting the table's documented preconditions are produced)
//! and returns the script bytes plus the log a faithful table must produce.
//! `rust_driver()` replays the script through the exported table from Rust
//! (raw pointers, extern "C" callbacks) — usable under Miri. The C driver
//! (cdriver/cdrv.c) replays it through the shipped header's prototypes.

use std::ffi::CString;
use std::net::IpAddr;

use dnssector::synth::r#gen;
use dnssector::*;
use libc::{c_char, c_int, c_void, size_t};

use crate::gen::valid::{gen_label, Cfg};
use crate::model::msg::*;
use crate::model::text::{damaged_text, name_to_text, text_name, valid_text};
use crate::prng::Rng;

// ---------------------------------------------------------------------------
// byte-level helpers

#[derive(Default)]
pub struct Buf(pub Vec<u8>);
impl Buf {
    fn u8(&mut self, v: u8) {
        self.0.push(v)
    }
    fn u16(&mut self, v: u16) {
        self.0.extend_from_slice(&v.to_le_bytes())
    }
    fn u32(&mut self, v: u32) {
        self.0.extend_from_slice(&v.to_le_bytes())
    }
    fn raw(&mut self, b: &[u8]) {
        self.0.extend_from_slice(b)
    }
    /// return code + description on -1 (`null_err`: the hook passed err == NULL, nothing to retrieve)
    fn ret_n<E: std::fmt::Display>(&mut self, r: &Result<(), E>, null_err: bool) {
        if null_err {
            self.u8(if r.is_ok() { 0 } else { 1 });
            self.u8(0xfe);
        } else {
            self.ret(r);
        }
    }
    fn ret<E: std::fmt::Display>(&mut self, r: &Result<(), E>) {
        match r {
            Ok(()) => self.u8(0),
            Err(_) => {
                // -1 and a retrievable, non-empty, NUL-terminated description (its wording is not compared)
                self.u8(1);
                self.u8(0xfd);
                self.u8(1);
            }
        }
    }
}

pub struct Script {
    pub bytes: Vec<u8>,
    pub expected_log: Vec<u8>,
    pub final_packet: Vec<u8>,
    pub ops: Vec<String>,
    pub sigs: Vec<String>,
}

fn zone_choices(rng: &mut Rng) -> Vec<u8> {
    match rng.below(4) {
        0 => vec![],
        1 => vec![0],
        2 => Name::from_labels(&[b"zone", b"example"]).to_wire(),
        _ => Name(vec![vec![b'z'; 60], vec![b'y'; 60], vec![b'x'; 60]]).to_wire(),
    }
}

fn some_text_name(rng: &mut Rng) -> Vec<u8> {
    // the table takes (pointer, length): a NUL inside or at the end of the text is a byte like any other, and
    // whatever the native call makes of it the table must do the same
    if rng.chance(1, 8) {
        let mut n = plain_text_name(rng);
        match rng.below(4) {
            0 => n.insert(0, 0),
            1 => {
                let at = rng.below(n.len() + 1);
                n.insert(at, 0)
            }
            _ => n.push(0),
        }
        return n;
    }
    plain_text_name(rng)
}

fn plain_text_name(rng: &mut Rng) -> Vec<u8> {
    match rng.below(8) {
        0 => b"a..b".to_vec(),
        1 => vec![b'x'; 70],
        2 => (0..260).map(|i| if i % 20 == 19 { b'.' } else { b'y' }).collect(),
        3 => vec![b'a', 0xe9, b'b'],
        4 => name_to_text(&crate::model::text::maximal_text_name(rng, 253), rng.chance(1, 2)).into_bytes(),
        5 => b".".to_vec(),
        _ => name_to_text(&text_name(rng, 120), rng.chance(1, 2)).into_bytes(),
    }
}

fn some_raw_name(rng: &mut Rng) -> Vec<u8> {
    let cfg = Cfg { long_names: false, ..Default::default() };
    match rng.below(10) {
        0 => vec![1, b'a', 0xc0, 0x0c],
        1 => vec![3, b'a', b'b'],
        2 => vec![],
        3 => crate::gen::valid::name_of_wire_len(rng, 255).to_wire(),
        4 => vec![0],
        5 => vec![3, b'a', b'.', b'b', 0],
        _ => {
            let k = rng.range(1, 4);
            Name((0..k).map(|_| gen_label(rng, &cfg)).collect()).to_wire()
        }
    }
}

/// Draw a script and execute it natively on `pp`.
pub fn generate(rng: &mut Rng, pp: &mut ParsedPacket, max_ops: usize) -> Script {
    generate_with(rng, pp, max_ops, None)
}

/// `first`: force the first operation (the selector value used below, e.g. 16 = question())
pub fn generate_with(rng: &mut Rng, pp: &mut ParsedPacket, max_ops: usize, first: Option<usize>) -> Script {
    let mut s = Buf::default();
    let mut l = Buf::default();
    let mut ops: Vec<String> = vec![];
    let mut sigs: Vec<String> = vec![];
    let nops = rng.range(1, max_ops);
    if rng.chance(1, 3) {
        // one err variable for the whole script (never reset, uninitialised at first), as the sample hook has it
        s.u8(13);
        s.u8(1);
        ops.push("[one err variable for the whole script]".into());
    }
    for opi in 0..nops {
        let sel = match (opi, first) {
            (0, Some(f)) => f,
            _ => rng.below(20),
        };
        match sel {
            0 => {
                s.u8(1);
                l.u8(1);
                l.u32(pp.flags());
                ops.push("flags".into());
            }
            1 => {
                let v = rng.u32();
                s.u8(2);
                s.u32(v);
                pp.set_flags(v);
                l.u8(2);
                ops.push(format!("set_flags({:#x})", v));
            }
            2 => {
                s.u8(3);
                l.u8(3);
                l.u8(pp.rcode());
                s.u8(5);
                l.u8(5);
                l.u8(pp.opcode());
                ops.push("rcode, opcode".into());
            }
            3 => {
                let (a, b) = (rng.u8(), rng.u8());
                s.u8(4);
                s.u8(a);
                pp.set_rcode(a);
                l.u8(4);
                s.u8(6);
                s.u8(b);
                pp.set_opcode(b);
                l.u8(6);
                ops.push(format!("set_rcode({}), set_opcode({})", a, b));
            }
            4..=10 => iterate(rng, pp, &mut s, &mut l, &mut ops, &mut sigs),
            11 | 12 | 13 => {
                let sec = rng.below(4);
                let section = [Section::Question, Section::Answer, Section::NameServers, Section::Additional][sec];
                // (the interpreter is four orders of magnitude slower: no 8 KiB texts there)
                let text: Vec<u8> = match if cfg!(miri) { rng.below(8) } else { rng.below(10) } {
                    0 => damaged_text(rng).0.into_bytes(),
                    1 => vec![b'a', 0xff, 0xfe, b' ', b'1'], // not UTF-8
                    8 => {
                        // record text far longer than a packet: every TXT byte written as a decimal escape
                        let n = rng.range(2050, 2400);
                        let body: String = (0..n).map(|i| format!("\\{:03}", 65 + (i % 26))).collect();
                        format!("long.example. 60 IN TXT \"{}\"", body).into_bytes()
                    }
                    9 => {
                        // more than one line: whatever the native call makes of it, the table must do the same
                        let first = valid_text(rng, None).text;
                        let second = if rng.chance(1, 2) { valid_text(rng, None).text } else { damaged_text(rng).0 };
                        format!("{}{}{}", first, rng.pick(&["\n", "\r\n", "\n\n"]), second).into_bytes()
                    }
                    _ => valid_text(rng, None).text.into_bytes(),
                };
                let text: Vec<u8> = text.into_iter().filter(|&c| c != 0).collect();
                let ne = rng.chance(1, 5);
                // text that is not UTF-8 has no native counterpart (the native call takes a &str): the
                // table must fail with a retrievable description, whose wording is not compared
                let no_native = std::str::from_utf8(&text).is_err();
                s.u8(8);
                s.u8(if ne { 1 } else if no_native { 2 } else { 0 });
                s.u8(sec as u8);
                s.u16(text.len() as u16);
                s.raw(&text);
                let r = match std::str::from_utf8(&text) {
                    Err(_) => Err(DSError::ParseError.to_string()),
                    Ok(t) => pp.insert_rr_from_string(section, t).map_err(|e| e.to_string()),
                };
                l.u8(8);
                if no_native && !ne {
                    l.u8(1);
                    l.u8(0xfd);
                    l.u8(1);
                } else {
                    l.ret_n(&r, ne);
                }
                sigs.push(format!("add|{}|{}|null{}", sec, r.is_ok(), ne as u8));
                ops.push(format!("add_to_{:?}({:?}) -> {:?}", section, String::from_utf8_lossy(&text[..text.len().min(60)]), r.is_ok()));
            }
            14 | 15 => {
                let len = pp.packet().len();
                // any capacity is legal: the call must copy iff the packet fits the capacity the hook states
                let cap = match rng.below(10) {
                    0 => len,
                    1 => len.saturating_sub(1),
                    2 => len + 1,
                    3 => 8192,
                    4 => *rng.pick(if cfg!(miri) { &[512usize, 4096, 65535, 65536, 65537, 70000][..] } else { &[512usize, 4096, 65535, 65536, 65537, 70000, 131072, 1 << 20][..] }),
                    5 => 65536 + len.saturating_sub(1), // low 16 bits just below the packet length
                    6 => 65536 * if cfg!(miri) { 1 } else { rng.range(1, 4) } + rng.below(len + 2),
                    _ => rng.below(8193),
                };
                s.u8(9);
                s.u32(cap as u32);
                l.u8(9);
                if len > cap {
                    l.u8(1);
                } else {
                    l.u8(0);
                    l.u16(len as u16);
                    l.raw(pp.packet());
                }
                sigs.push(format!("raw_packet|{}", (len > cap) as u8));
                ops.push(format!("raw_packet(cap {}) with {} bytes", cap, len));
            }
            16 => {
                s.u8(10);
                l.u8(10);
                match pp.question() {
                    Some((name, t, _)) if name.len() <= 255 => {
                        l.u8(0);
                        l.u16(name.len() as u16);
                        l.raw(&name);
                        l.u16(t);
                    }
                    Some((_, t, _)) => {
                        l.u8(1);
                        l.u16(0);
                        l.u16(t);
                    }
                    None => {
                        l.u8(1);
                        l.u16(0);
                        l.u16(0);
                    }
                }
                ops.push("question".into());
            }
            17 | 18 => {
                // rename with well-formed raw names (the documented precondition), or empty / over-long ones
                let d = crate::model::refparse::refparse(pp.packet(), crate::checks::hist::RELAXED).ok();
                let (t, sname, suffix) = match (&d, rng.below(6)) {
                    (_, 0) => (vec![], vec![1, b'a', 0], true),
                    (Some(d), _) => {
                        let (t, sn, suf, _) = crate::checks::c07::draw_args(rng, &d.msg);
                        (t.to_wire(), sn.to_wire(), suf)
                    }
                    _ => (vec![1, b'a', 0], vec![1, b'b', 0], false),
                };
                let wf = |w: &[u8]| Name::from_wire(w).map(|(n, l)| l == w.len() && n.0.iter().all(|l| l.iter().all(|&c| !(c < 0x20 || c == 0x7f || c == b'.' || c == b'\\')))).unwrap_or(false);
                if (t.is_empty() || wf(&t)) && wf(&sname) && t.len() <= 255 && sname.len() <= 255 {
                    let ne = rng.chance(1, 5);
                    s.u8(11);
                    s.u8(ne as u8);
                    s.u16(t.len() as u16);
                    s.raw(&t);
                    s.u16(sname.len() as u16);
                    s.raw(&sname);
                    s.u8(suffix as u8);
                    let r = pp.rename_with_raw_names(&t, &sname, suffix).map_err(|e| e.to_string());
                    l.u8(11);
                    l.ret_n(&r, ne);
                    sigs.push(format!("rename|{}", r.is_ok()));
                    ops.push(format!("rename({} -> {}, {}) -> {:?}", hex(&sname[..sname.len().min(20)]), hex(&t[..t.len().min(20)]), suffix, r.is_ok()));
                }
            }
            _ => {
                let n = some_text_name(rng);
                let ne = rng.chance(1, 5);
                s.u8(12);
                s.u8(ne as u8);
                s.u16(n.len() as u16);
                s.raw(&n);
                let r = r#gen::raw_name_from_str(&n, None);
                l.u8(12);
                match &r {
                    Ok(raw) => {
                        let ok: Result<(), String> = Ok(());
                        l.ret_n(&ok, ne);
                        l.u16(raw.len() as u16);
                        l.raw(raw);
                    }
                    Err(e) => {
                        let e: Result<(), String> = Err(e.to_string());
                        l.ret_n(&e, ne);
                    }
                }
                sigs.push(format!("raw_name_from_str|{}", r.is_ok()));
                ops.push(format!("raw_name_from_str({:?})", String::from_utf8_lossy(&n[..n.len().min(40)])));
            }
        }
    }
    s.u8(0);
    Script { bytes: s.0, expected_log: l.0, final_packet: pp.packet().to_vec(), ops, sigs }
}

fn iterate(rng: &mut Rng, pp: &mut ParsedPacket, s: &mut Buf, l: &mut Buf, ops: &mut Vec<String>, sigs: &mut Vec<String>) {
    let sec = rng.below(4);
    s.u8(7);
    s.u8(sec as u8);
    let ncb_at = s.0.len();
    s.u8(0);
    l.u8(7);
    l.u8(sec as u8);
    let mut ncb: u8 = 0;
    let mut calls: u8 = 0;
    let mut desc = format!("iter[{}]:", sec);
    if sec == 3 {
        let mut it = pp.into_iter_edns();
        while let Some(item) = it {
            l.u8(0x70);
            l.u8(calls);
            calls += 1;
            let stop = rng.chance(1, 10);
            if ncb < 250 {
                s.u8(stop as u8);
                s.u8(0);
                ncb += 1;
            }
            if stop {
                break;
            }
            it = item.next();
        }
        desc.push_str(&format!(" {} option callbacks", calls));
    } else {
        let mut it = match sec {
            0 => pp.into_iter_answer(),
            1 => pp.into_iter_nameservers(),
            _ => pp.into_iter_additional(),
        };
        while let Some(mut item) = it {
            l.u8(0x70);
            l.u8(calls);
            calls += 1;
            if ncb >= 250 {
                it = item.next();
                continue;
            }
            ncb += 1;
            let stop = rng.chance(1, 12);
            s.u8(stop as u8);
            let nops_at = s.0.len();
            s.u8(0);
            let mut nops = 0u8;
            let mut dead = false;
            for _ in 0..rng.below(6) {
                let rtype = if dead { 0 } else { item.rr_type() };
                let choice = rng.below(14);
                match choice {
                    0 | 1 if !dead => {
                        s.u8(1);
                        let n = item.name();
                        l.u8(0x11);
                        l.u16(n.len() as u16);
                        l.raw(&n);
                        desc.push_str(" name");
                    }
                    2 if !dead => {
                        s.u8(2);
                        l.u8(0x12);
                        l.u16(item.rr_type());
                        s.u8(3);
                        l.u8(0x13);
                        l.u16(item.rr_class());
                        nops += 1;
                        desc.push_str(" type class");
                    }
                    3 if !dead => {
                        s.u8(4);
                        l.u8(0x14);
                        l.u32(item.rr_ttl());
                        desc.push_str(" ttl");
                    }
                    4 if !dead => {
                        let v = *rng.pick(&[0u32, u32::MAX, 1, 0x8000_0000, 3600]);
                        s.u8(5);
                        s.u32(v);
                        item.set_rr_ttl(v);
                        l.u8(0x15);
                        desc.push_str(" set_ttl");
                    }
                    5 | 6 if !dead && (rtype == T_A || rtype == T_AAAA) => {
                        let need = if rtype == T_A { 4 } else { 16 };
                        let cap = *rng.pick(&[need, need, 16.max(need), 20]);
                        s.u8(6);
                        s.u8(cap as u8);
                        l.u8(0x16);
                        l.u8(need as u8);
                        match item.rr_ip() {
                            Ok(IpAddr::V4(a)) => l.raw(&a.octets()),
                            Ok(IpAddr::V6(a)) => l.raw(&a.octets()),
                            Err(_) => {}
                        }
                        sigs.push(format!("rr_ip|{}|cap{}", rtype, cap));
                        desc.push_str(" rr_ip");
                    }
                    7 if !dead && (rtype == T_A || rtype == T_AAAA) => {
                        let need = if rtype == T_A { 4 } else { 16 };
                        let a = rng.bytes(need);
                        s.u8(7);
                        s.u8(need as u8);
                        s.raw(&a);
                        let ip: IpAddr = if need == 4 { IpAddr::from([a[0], a[1], a[2], a[3]]) } else { let mut b = [0u8; 16]; b.copy_from_slice(&a); IpAddr::from(b) };
                        let _ = item.set_rr_ip(&ip);
                        l.u8(0x17);
                        desc.push_str(" set_rr_ip");
                    }
                    8 | 9 => {
                        let n = some_raw_name(rng);
                        let ne = rng.chance(1, 5);
                        s.u8(8);
                        s.u8(ne as u8);
                        s.u16(n.len() as u16);
                        s.raw(&n);
                        let r = item.set_raw_name(&n).map_err(|e| e.to_string());
                        l.u8(0x18);
                        l.ret_n(&r, ne);
                        sigs.push(format!("set_raw_name|{}|dead{}", r.is_ok(), dead as u8));
                        desc.push_str(&format!(" set_raw_name->{}", r.is_ok()));
                    }
                    10 | 11 => {
                        let n = some_text_name(rng);
                        let z = zone_choices(rng);
                        let ne = rng.chance(1, 5);
                        // "no default zone" is (NULL, 0) or (any pointer, 0): an empty buffer's pointer is not NULL
                        let zptr = z.is_empty() && rng.chance(1, 2);
                        s.u8(9);
                        s.u8(ne as u8 | if zptr { 0x80 } else { 0 });
                        s.u16(n.len() as u16);
                        s.raw(&n);
                        s.u16(z.len() as u16);
                        s.raw(&z);
                        let r = match r#gen::raw_name_from_str(&n, if z.is_empty() { None } else { Some(&z) }) {
                            Err(e) => Err(e.to_string()),
                            Ok(raw) => item.set_raw_name(&raw).map_err(|e| e.to_string()),
                        };
                        l.u8(0x19);
                        l.ret_n(&r, ne);
                        sigs.push(format!("set_name|{}|z{}|dead{}", r.is_ok(), z.len().min(2), dead as u8));
                        desc.push_str(&format!(" set_name->{}", r.is_ok()));
                    }
                    12 | 13 => {
                        let ne = rng.chance(1, 5);
                        s.u8(10);
                        s.u8(ne as u8);
                        let r = item.delete().map_err(|e| e.to_string());
                        l.u8(0x1a);
                        l.ret_n(&r, ne);
                        sigs.push(format!("delete|{}|dead{}", r.is_ok(), dead as u8));
                        desc.push_str(&format!(" delete->{}", r.is_ok()));
                        dead = true;
                    }
                    _ => continue,
                }
                nops += 1;
            }
            s.0[nops_at] = nops;
            if stop {
                desc.push_str(" STOP");
                break;
            }
            desc.push_str(" |");
            it = item.next();
        }
    }
    s.0[ncb_at] = ncb;
    l.u8(0x7f);
    l.u8(calls);
    sigs.push(format!("iter|{}|calls{}", sec, calls.min(4)));
    ops.push(desc);
}

// ---------------------------------------------------------------------------
// Rust driver through the exported table (raw pointers, extern "C" callbacks)

type It = *mut c_void;
type Cb = unsafe extern "C" fn(*mut c_void, It) -> bool;

pub struct RawTable {
    error_description: unsafe extern "C" fn(*const CErr) -> *const c_char,
    flags: unsafe extern "C" fn(*const ParsedPacket) -> u32,
    set_flags: unsafe extern "C" fn(*mut ParsedPacket, u32),
    rcode: unsafe extern "C" fn(*const ParsedPacket) -> u8,
    set_rcode: unsafe extern "C" fn(*mut ParsedPacket, u8),
    opcode: unsafe extern "C" fn(*const ParsedPacket) -> u8,
    set_opcode: unsafe extern "C" fn(*mut ParsedPacket, u8),
    iter: [unsafe extern "C" fn(*mut ParsedPacket, Cb, *mut c_void); 4],
    name: unsafe extern "C" fn(It, *mut u8),
    rr_type: unsafe extern "C" fn(It) -> u16,
    rr_class: unsafe extern "C" fn(It) -> u16,
    rr_ttl: unsafe extern "C" fn(It) -> u32,
    set_rr_ttl: unsafe extern "C" fn(It, u32),
    rr_ip: unsafe extern "C" fn(It, *mut u8, *mut size_t),
    set_rr_ip: unsafe extern "C" fn(It, *const u8, size_t),
    raw_name_from_str: unsafe extern "C" fn(*mut u8, *mut size_t, *mut *const CErr, *const c_char, size_t) -> c_int,
    set_raw_name: unsafe extern "C" fn(It, *mut *const CErr, *const u8, size_t) -> c_int,
    set_name: unsafe extern "C" fn(It, *mut *const CErr, *const c_char, size_t, *const u8, size_t) -> c_int,
    delete: unsafe extern "C" fn(It, *mut *const CErr) -> c_int,
    add: [unsafe extern "C" fn(*mut ParsedPacket, *mut *const CErr, *const c_char) -> c_int; 4],
    raw_packet: unsafe extern "C" fn(*const ParsedPacket, *mut u8, *mut size_t, size_t) -> c_int,
    question: unsafe extern "C" fn(*mut ParsedPacket, *mut u8, *mut u16) -> c_int,
    rename: unsafe extern "C" fn(*mut ParsedPacket, *mut *const CErr, *const u8, size_t, *const u8, size_t, bool) -> c_int,
}

/// Reinterpret one function pointer as another (keeps provenance; the harness builds even if the
/// table's Rust signatures change, and the change then shows up at run time).
pub unsafe fn cast_fn<F: Copy, G: Copy>(f: F) -> G {
    assert_eq!(std::mem::size_of::<F>(), std::mem::size_of::<G>());
    std::mem::transmute_copy(&f)
}

impl RawTable {
    pub unsafe fn call_set_opcode(&self, pp: *mut ParsedPacket, v: u8) {
        (self.set_opcode)(pp, v)
    }
    pub unsafe fn call_set_rcode(&self, pp: *mut ParsedPacket, v: u8) {
        (self.set_rcode)(pp, v)
    }
    pub unsafe fn call_set_flags(&self, pp: *mut ParsedPacket, v: u32) {
        (self.set_flags)(pp, v)
    }
    pub unsafe fn call_opcode(&self, pp: *const ParsedPacket) -> u8 {
        (self.opcode)(pp)
    }
    pub unsafe fn call_rcode(&self, pp: *const ParsedPacket) -> u8 {
        (self.rcode)(pp)
    }
    pub unsafe fn call_flags(&self, pp: *const ParsedPacket) -> u32 {
        (self.flags)(pp)
    }
}

pub fn raw_table() -> RawTable {
    let t = fn_table();
    macro_rules! tm {
        ($f:expr) => {
            unsafe { cast_fn($f) }
        };
    }
    RawTable {
        error_description: tm!(t.error_description),
        flags: tm!(t.flags),
        set_flags: tm!(t.set_flags),
        rcode: tm!(t.rcode),
        set_rcode: tm!(t.set_rcode),
        opcode: tm!(t.opcode),
        set_opcode: tm!(t.set_opcode),
        iter: [tm!(t.iter_answer), tm!(t.iter_nameservers), tm!(t.iter_additional), tm!(t.iter_edns)],
        name: tm!(t.name),
        rr_type: tm!(t.rr_type),
        rr_class: tm!(t.rr_class),
        rr_ttl: tm!(t.rr_ttl),
        set_rr_ttl: tm!(t.set_rr_ttl),
        rr_ip: tm!(t.rr_ip),
        set_rr_ip: tm!(t.set_rr_ip),
        raw_name_from_str: tm!(t.raw_name_from_str),
        set_raw_name: tm!(t.set_raw_name),
        set_name: tm!(t.set_name),
        delete: tm!(t.delete),
        add: [tm!(t.add_to_question), tm!(t.add_to_answer), tm!(t.add_to_nameservers), tm!(t.add_to_additional)],
        raw_packet: tm!(t.raw_packet),
        question: tm!(t.question),
        rename: tm!(t.rename_with_raw_names),
    }
}

struct RRun<'a> {
    t: &'a RawTable,
    s: &'a [u8],
    pos: usize,
    log: Buf,
    cb_count: usize,
    cb_calls: usize,
    edns: bool,
    /// the hook's `const CErr *err` variable: a fresh NULL one per call, or ONE variable for the whole script,
    /// never reset and uninitialised at first (as the sample hook in c_hook.c keeps it)
    persist: bool,
    perr: *const CErr,
}

impl<'a> RRun<'a> {
    fn rd8(&mut self) -> u8 {
        let v = self.s.get(self.pos).copied().unwrap_or(0);
        self.pos += 1;
        v
    }
    fn rd16(&mut self) -> u16 {
        let a = self.rd8() as u16;
        a | ((self.rd8() as u16) << 8)
    }
    fn rd32(&mut self) -> u32 {
        let a = self.rd16() as u32;
        a | ((self.rd16() as u32) << 16)
    }
    fn rdn(&mut self, n: usize) -> Vec<u8> {
        let e = (self.pos + n).min(self.s.len());
        let v = self.s[self.pos.min(e)..e].to_vec();
        self.pos += n;
        v
    }
    unsafe fn lg_ret(&mut self, ret: c_int, err: *const CErr, null_err: bool) {
        self.lg_ret_mode(ret, err, null_err as u8)
    }
    /// mode 0: description compared byte for byte; 1: err == NULL; 2: only "a description is retrievable"
    unsafe fn lg_ret_mode(&mut self, ret: c_int, err: *const CErr, mode: u8) {
        if self.persist && mode != 1 {
            self.perr = err; // the variable keeps whatever the call left in it
        }
        self.log.u8(if ret == 0 { 0 } else if ret == -1 { 1 } else { 2 });
        if mode == 1 {
            self.log.u8(0xfe);
            return;
        }
        if ret == -1 {
            let d = if !err.is_null() { (self.t.error_description)(err) } else { std::ptr::null() };
            let mut n = 0usize;
            if !d.is_null() {
                while n < 1024 && *d.add(n) != 0 {
                    n += 1;
                }
            }
            self.log.u8(0xfd);
            self.log.u8((!d.is_null() && n > 0 && n < 1024) as u8);
        }
    }
    unsafe fn record_ops(&mut self, it: It, nops: usize) {
        for _ in 0..nops {
            match self.rd8() {
                1 => {
                    // exactly 256 bytes, as the header documents
                    let mut b: Box<[u8; 256]> = Box::new([0x5c; 256]);
                    (self.t.name)(it, b.as_mut_ptr());
                    let n = b.iter().position(|&c| c == 0).unwrap_or(256);
                    self.log.u8(0x11);
                    self.log.u16(n as u16);
                    self.log.raw(&b[..n]);
                }
                2 => {
                    self.log.u8(0x12);
                    let v = (self.t.rr_type)(it);
                    self.log.u16(v);
                }
                3 => {
                    self.log.u8(0x13);
                    let v = (self.t.rr_class)(it);
                    self.log.u16(v);
                }
                4 => {
                    self.log.u8(0x14);
                    let v = (self.t.rr_ttl)(it);
                    self.log.u32(v);
                }
                5 => {
                    let v = self.rd32();
                    (self.t.set_rr_ttl)(it, v);
                    self.log.u8(0x15);
                }
                6 => {
                    let cap = self.rd8() as usize;
                    let mut b = vec![0x5cu8; cap].into_boxed_slice();
                    let mut len: size_t = cap;
                    (self.t.rr_ip)(it, b.as_mut_ptr(), &mut len);
                    self.log.u8(0x16);
                    self.log.u8(len as u8);
                    self.log.raw(&b[..len.min(cap)]);
                }
                7 => {
                    let len = self.rd8() as usize;
                    let b = self.rdn(len).into_boxed_slice();
                    (self.t.set_rr_ip)(it, b.as_ptr(), len);
                    self.log.u8(0x17);
                }
                8 => {
                    let ne = self.rd8() != 0;
                    let len = self.rd16() as usize;
                    let b = self.rdn(len).into_boxed_slice();
                    let mut err: *const CErr = self.perr;
                    let ret = (self.t.set_raw_name)(it, if ne { std::ptr::null_mut() } else { &mut err }, b.as_ptr(), len);
                    self.log.u8(0x18);
                    self.lg_ret(ret, err, ne);
                }
                9 => {
                    let f = self.rd8();
                    let (ne, zptr) = (f & 0x7f != 0, f & 0x80 != 0);
                    let nlen = self.rd16() as usize;
                    let n = self.rdn(nlen).into_boxed_slice();
                    let zlen = self.rd16() as usize;
                    let z = self.rdn(zlen).into_boxed_slice();
                    let mut err: *const CErr = self.perr;
                    let ret = (self.t.set_name)(it, if ne { std::ptr::null_mut() } else { &mut err }, n.as_ptr() as *const c_char, nlen, if zlen > 0 || zptr { z.as_ptr() } else { std::ptr::null() }, zlen);
                    self.log.u8(0x19);
                    self.lg_ret(ret, err, ne);
                }
                10 => {
                    let ne = self.rd8() != 0;
                    let mut err: *const CErr = self.perr;
                    let ret = (self.t.delete)(it, if ne { std::ptr::null_mut() } else { &mut err });
                    self.log.u8(0x1a);
                    self.lg_ret(ret, err, ne);
                }
                _ => {
                    self.log.u8(0xEF);
                    return;
                }
            }
        }
    }
}

unsafe extern "C" fn rust_cb(ctx: *mut c_void, it: It) -> bool {
    let r = &mut *(ctx as *mut RRun<'_>);
    let idx = r.cb_calls;
    r.cb_calls += 1;
    r.log.u8(0x70);
    r.log.u8(idx as u8);
    if idx < r.cb_count {
        let stop = r.rd8();
        let nops = r.rd8() as usize;
        if !r.edns {
            r.record_ops(it, nops);
        }
        return stop != 0;
    }
    false
}

/// Replay `script` through the exported table, as a hook written in Rust would.
pub fn rust_driver(t: &RawTable, pp: &mut ParsedPacket, script: &[u8]) -> Vec<u8> {
    let mut r = RRun { t, s: script, pos: 0, log: Buf::default(), cb_count: 0, cb_calls: 0, edns: false, persist: false, perr: std::ptr::null() };
    let ppp: *mut ParsedPacket = pp;
    unsafe {
        loop {
            let op = r.rd8();
            match op {
                0 => break,
                13 => {
                    r.persist = r.rd8() != 0;
                    // "uninitialised": never to be read by the table
                    r.perr = if r.persist { std::ptr::without_provenance::<CErr>(1) } else { std::ptr::null() };
                }
                1 => {
                    r.log.u8(1);
                    let v = (t.flags)(ppp);
                    r.log.u32(v);
                }
                2 => {
                    let v = r.rd32();
                    (t.set_flags)(ppp, v);
                    r.log.u8(2);
                }
                3 => {
                    r.log.u8(3);
                    let v = (t.rcode)(ppp);
                    r.log.u8(v);
                }
                4 => {
                    let v = r.rd8();
                    (t.set_rcode)(ppp, v);
                    r.log.u8(4);
                }
                5 => {
                    r.log.u8(5);
                    let v = (t.opcode)(ppp);
                    r.log.u8(v);
                }
                6 => {
                    let v = r.rd8();
                    (t.set_opcode)(ppp, v);
                    r.log.u8(6);
                }
                7 => {
                    let sec = r.rd8() as usize;
                    r.cb_count = r.rd8() as usize;
                    r.cb_calls = 0;
                    r.edns = sec == 3;
                    r.log.u8(7);
                    r.log.u8(sec as u8);
                    let ctx: *mut RRun<'_> = &mut r;
                    (t.iter[sec.min(3)])(ppp, rust_cb, ctx as *mut c_void);
                    r.log.u8(0x7f);
                    r.log.u8(r.cb_calls as u8);
                    while r.cb_calls < r.cb_count {
                        let _ = r.rd8();
                        let nops = r.rd8();
                        for _ in 0..nops {
                            match r.rd8() {
                                5 => {
                                    r.rd32();
                                }
                                6 => {
                                    r.rd8();
                                }
                                7 => {
                                    let n = r.rd8() as usize;
                                    r.rdn(n);
                                }
                                8 => {
                                    r.rd8();
                                    let n = r.rd16() as usize;
                                    r.rdn(n);
                                }
                                9 => {
                                    r.rd8();
                                    let n = r.rd16() as usize;
                                    r.rdn(n);
                                    let z = r.rd16() as usize;
                                    r.rdn(z);
                                }
                                10 => {
                                    r.rd8();
                                }
                                _ => {}
                            }
                        }
                        r.cb_calls += 1;
                    }
                }
                8 => {
                    let ne = r.rd8();
                    let sec = r.rd8() as usize;
                    let len = r.rd16() as usize;
                    let text = r.rdn(len);
                    let c = CString::new(text).unwrap_or_default();
                    let mut err: *const CErr = r.perr;
                    let ret = (t.add[sec.min(3)])(ppp, if ne == 1 { std::ptr::null_mut() } else { &mut err }, c.as_ptr());
                    r.log.u8(8);
                    r.lg_ret_mode(ret, err, ne);
                }
                9 => {
                    let cap = r.rd32() as usize;
                    let mut b = vec![0x5cu8; cap].into_boxed_slice();
                    let mut len: size_t = 0xdddd;
                    let ret = (t.raw_packet)(ppp, b.as_mut_ptr(), &mut len, cap);
                    r.log.u8(9);
                    r.log.u8(if ret == 0 { 0 } else if ret == -1 { 1 } else { 2 });
                    if ret == 0 {
                        r.log.u16(len as u16);
                        r.log.raw(&b[..len.min(cap)]);
                    }
                }
                10 => {
                    let mut b: Box<[u8; 256]> = Box::new([0x5c; 256]);
                    let mut qt: u16 = 0xeeee;
                    let ret = (t.question)(ppp, b.as_mut_ptr(), &mut qt);
                    let n = b.iter().position(|&c| c == 0).unwrap_or(256);
                    r.log.u8(10);
                    r.log.u8(if ret == 0 { 0 } else if ret == -1 { 1 } else { 2 });
                    r.log.u16(n as u16);
                    r.log.raw(&b[..n]);
                    r.log.u16(qt);
                }
                11 => {
                    let ne = r.rd8() != 0;
                    let tl = r.rd16() as usize;
                    let tn = r.rdn(tl).into_boxed_slice();
                    let sl = r.rd16() as usize;
                    let sn = r.rdn(sl).into_boxed_slice();
                    let suf = r.rd8() != 0;
                    let mut err: *const CErr = r.perr;
                    let ret = (t.rename)(ppp, if ne { std::ptr::null_mut() } else { &mut err }, tn.as_ptr(), tl, sn.as_ptr(), sl, suf);
                    r.log.u8(11);
                    r.lg_ret(ret, err, ne);
                }
                12 => {
                    let ne = r.rd8() != 0;
                    let len = r.rd16() as usize;
                    let n = r.rdn(len).into_boxed_slice();
                    let mut out: Box<[u8; 256]> = Box::new([0x5c; 256]);
                    let mut raw_len: size_t = 0xdddd;
                    let mut err: *const CErr = r.perr;
                    let ret = (t.raw_name_from_str)(out.as_mut_ptr(), &mut raw_len, if ne { std::ptr::null_mut() } else { &mut err }, n.as_ptr() as *const c_char, len);
                    r.log.u8(12);
                    r.lg_ret(ret, err, ne);
                    if ret == 0 {
                        r.log.u16(raw_len as u16);
                        r.log.raw(&out[..raw_len.min(256)]);
                    }
                }
                _ => {
                    r.log.u8(0xEF);
                    break;
                }
            }
        }
    }
    r.log.0
}

// ---------------------------------------------------------------------------
// the C driver (linked only when built with DNSMON_CDRV)

#[cfg(dnsmon_cdrv)]
extern "C" {
    fn cdrv_layout(size_of_table: *mut size_t, names: *mut *const *const c_char, offsets: *mut *const size_t, abi: *mut u64, max_host: *mut size_t, max_pkt: *mut size_t) -> size_t;
    fn cdrv_run(t: *const FnTable, pp: *mut ParsedPacket, script: *const u8, script_len: size_t, log: *mut u8, log_cap: size_t, log_len: *mut size_t) -> c_int;
}

pub struct CLayout {
    pub size: usize,
    pub members: Vec<(String, usize)>,
    pub abi_version: u64,
    pub max_hostname_len: usize,
    pub max_packet_size: usize,
}

#[cfg(dnsmon_cdrv)]
pub fn c_layout() -> Option<CLayout> {
    unsafe {
        let (mut size, mut names, mut offs, mut abi, mut mh, mut mp) = (0usize, std::ptr::null(), std::ptr::null(), 0u64, 0usize, 0usize);
        let n = cdrv_layout(&mut size, &mut names, &mut offs, &mut abi, &mut mh, &mut mp);
        let mut members = vec![];
        for i in 0..n {
            let name = std::ffi::CStr::from_ptr(*names.add(i)).to_string_lossy().into_owned();
            members.push((name, *offs.add(i)));
        }
        Some(CLayout { size, members, abi_version: abi, max_hostname_len: mh, max_packet_size: mp })
    }
}

#[cfg(not(dnsmon_cdrv))]
pub fn c_layout() -> Option<CLayout> {
    None
}

#[cfg(dnsmon_cdrv)]
pub fn c_driver(pp: &mut ParsedPacket, script: &[u8]) -> Option<(Vec<u8>, i32)> {
    let t = fn_table();
    let mut log = vec![0u8; 1 << 20];
    let mut n: size_t = 0;
    let rc = unsafe { cdrv_run(&t, pp, script.as_ptr(), script.len(), log.as_mut_ptr(), log.len(), &mut n) };
    log.truncate(n);
    Some((log, rc))
}

#[cfg(not(dnsmon_cdrv))]
pub fn c_driver(_pp: &mut ParsedPacket, _script: &[u8]) -> Option<(Vec<u8>, i32)> {
    None
}

/// The Rust side of the table layout: (member name as the header calls it, offset).
pub fn rust_layout() -> (usize, Vec<(&'static str, usize)>) {
    use std::mem::offset_of;
    (
        std::mem::size_of::<FnTable>(),
        vec![
            ("error_description", offset_of!(FnTable, error_description)),
            ("flags", offset_of!(FnTable, flags)),
            ("set_flags", offset_of!(FnTable, set_flags)),
            ("rcode", offset_of!(FnTable, rcode)),
            ("set_rcode", offset_of!(FnTable, set_rcode)),
            ("opcode", offset_of!(FnTable, opcode)),
            ("set_opcode", offset_of!(FnTable, set_opcode)),
            ("iter_answer", offset_of!(FnTable, iter_answer)),
            ("iter_nameservers", offset_of!(FnTable, iter_nameservers)),
            ("iter_additional", offset_of!(FnTable, iter_additional)),
            ("iter_edns", offset_of!(FnTable, iter_edns)),
            ("name", offset_of!(FnTable, name)),
            ("rr_type", offset_of!(FnTable, rr_type)),
            ("rr_class", offset_of!(FnTable, rr_class)),
            ("rr_ttl", offset_of!(FnTable, rr_ttl)),
            ("set_rr_ttl", offset_of!(FnTable, set_rr_ttl)),
            ("rr_ip", offset_of!(FnTable, rr_ip)),
            ("set_rr_ip", offset_of!(FnTable, set_rr_ip)),
            ("raw_name_from_str", offset_of!(FnTable, raw_name_from_str)),
            ("set_raw_name", offset_of!(FnTable, set_raw_name)),
            ("set_name", offset_of!(FnTable, set_name)),
            ("delete_rr", offset_of!(FnTable, delete)),
            ("add_to_question", offset_of!(FnTable, add_to_question)),
            ("add_to_answer", offset_of!(FnTable, add_to_answer)),
            ("add_to_nameservers", offset_of!(FnTable, add_to_nameservers)),
            ("add_to_additional", offset_of!(FnTable, add_to_additional)),
            ("raw_packet", offset_of!(FnTable, raw_packet)),
            ("question", offset_of!(FnTable, question)),
            ("rename_with_raw_names", offset_of!(FnTable, rename_with_raw_names)),
            ("abi_version", offset_of!(FnTable, abi_version)),
        ],
    )
}

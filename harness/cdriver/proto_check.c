/*
 * Prototype conformance of the shipped C header (compile-only).
 *
 * Each member of FnTable, as declared in /repo/src/bin/c_hook/c_hook.h, is
 * assigned to a function pointer of the type the Rust table actually exports
 * (src/c_abi.rs), written in C. With -Werror=incompatible-pointer-types and
 * -Werror=incompatible-function-pointer-types a mismatch between what the
 * header promises and what the library provides is a compile error, so a hook
 * compiled against the header would not call what it means to call.
 */
#include "c_hook.h"

void
proto_check(const FnTable *t)
{
    const char *(*error_description)(const CErr *)                       = t->error_description;
    uint32_t (*flags)(const ParsedPacket *)                              = t->flags;
    void (*set_flags)(ParsedPacket *, uint32_t)                          = t->set_flags;
    uint8_t (*rcode)(const ParsedPacket *)                               = t->rcode;
    void (*set_rcode)(ParsedPacket *, uint8_t)                           = t->set_rcode;
    uint8_t (*opcode)(const ParsedPacket *)                              = t->opcode;
    void (*set_opcode)(ParsedPacket *, uint8_t)                          = t->set_opcode;
    void (*iter_answer)(ParsedPacket *, bool (*)(void *, void *), void *)      = t->iter_answer;
    void (*iter_nameservers)(ParsedPacket *, bool (*)(void *, void *), void *) = t->iter_nameservers;
    void (*iter_additional)(ParsedPacket *, bool (*)(void *, void *), void *)  = t->iter_additional;
    void (*iter_edns)(ParsedPacket *, bool (*)(void *, void *), void *)        = t->iter_edns;
    void (*name)(void *, char *)                                         = t->name;
    uint16_t (*rr_type)(void *)                                          = t->rr_type;
    uint16_t (*rr_class)(void *)                                         = t->rr_class;
    uint32_t (*rr_ttl)(void *)                                           = t->rr_ttl;
    void (*set_rr_ttl)(void *, uint32_t)                                 = t->set_rr_ttl;
    void (*rr_ip)(void *, uint8_t *, size_t *)                           = t->rr_ip;
    void (*set_rr_ip)(void *, const uint8_t *, size_t)                   = t->set_rr_ip;
    int (*raw_name_from_str)(uint8_t *, size_t *, const CErr **, const char *, size_t) = t->raw_name_from_str;
    int (*set_raw_name)(void *, const CErr **, const uint8_t *, size_t)  = t->set_raw_name;
    int (*set_name)(void *, const CErr **, const char *, size_t, const uint8_t *, size_t) = t->set_name;
    int (*delete_rr)(void *, const CErr **)                              = t->delete_rr;
    int (*add_to_question)(ParsedPacket *, const CErr **, const char *)  = t->add_to_question;
    int (*add_to_answer)(ParsedPacket *, const CErr **, const char *)    = t->add_to_answer;
    int (*add_to_nameservers)(ParsedPacket *, const CErr **, const char *) = t->add_to_nameservers;
    int (*add_to_additional)(ParsedPacket *, const CErr **, const char *)  = t->add_to_additional;
    int (*raw_packet)(const ParsedPacket *, uint8_t *, size_t *, size_t) = t->raw_packet;
    int (*question)(ParsedPacket *, char *, uint16_t *)                  = t->question;
    int (*rename_with_raw_names)(ParsedPacket *, const CErr **, const uint8_t *, size_t, const uint8_t *, size_t, bool) =
        t->rename_with_raw_names;
    uint64_t abi_version = t->abi_version;
    (void) error_description; (void) flags; (void) set_flags; (void) rcode; (void) set_rcode; (void) opcode;
    (void) set_opcode; (void) iter_answer; (void) iter_nameservers; (void) iter_additional; (void) iter_edns;
    (void) name; (void) rr_type; (void) rr_class; (void) rr_ttl; (void) set_rr_ttl; (void) rr_ip; (void) set_rr_ip;
    (void) raw_name_from_str; (void) set_raw_name; (void) set_name; (void) delete_rr; (void) add_to_question;
    (void) add_to_answer; (void) add_to_nameservers; (void) add_to_additional; (void) raw_packet; (void) question;
    (void) rename_with_raw_names; (void) abi_version;
}

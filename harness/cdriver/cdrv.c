/*
 * C hook driver for the dnssector function table.
 *
 * Compiled by the system C compiler against the header SHIPPED with the
 * library (/repo/src/bin/c_hook/c_hook.h). Every table entry is called
 * through the header's prototype, with no casts, the way a hook would.
 *
 * cdrv_layout(): sizeof(FnTable) and offsetof() of every member as the C
 *                compiler sees them through the header.
 * cdrv_run():    interprets a hook script (see harness/src/capi/script.rs for
 *                the byte format) and logs every return value and out-buffer.
 *                Every caller buffer handed to the table lives in its own
 *                malloc block of exactly the documented size (ASan / valgrind
 *                see any overrun) and is additionally fenced by canary bytes
 *                inside a larger block in the plain build.
 */
#include <stdlib.h>
#include <string.h>

#include "c_hook.h"

/* ---- layout ----------------------------------------------------------- */

#define MEMBERS(X)                                                                           \
    X(error_description) X(flags) X(set_flags) X(rcode) X(set_rcode) X(opcode) X(set_opcode) \
    X(iter_answer) X(iter_nameservers) X(iter_additional) X(iter_edns) X(name) X(rr_type)    \
    X(rr_class) X(rr_ttl) X(set_rr_ttl) X(rr_ip) X(set_rr_ip) X(raw_name_from_str)           \
    X(set_raw_name) X(set_name) X(delete_rr) X(add_to_question) X(add_to_answer)             \
    X(add_to_nameservers) X(add_to_additional) X(raw_packet) X(question)                     \
    X(rename_with_raw_names) X(abi_version)

#define NAME_ENTRY(m) #m,
#define OFF_ENTRY(m) offsetof(FnTable, m),
static const char *const member_names[] = { MEMBERS(NAME_ENTRY) };
static const size_t      member_offs[]  = { MEMBERS(OFF_ENTRY) };

size_t
cdrv_layout(size_t *size_of_table, const char *const **names, const size_t **offsets,
            uint64_t *header_abi_version, size_t *max_hostname_len, size_t *max_packet_size)
{
    *size_of_table      = sizeof(FnTable);
    *names              = member_names;
    *offsets            = member_offs;
    *header_abi_version = DNSSECTOR_ABI_VERSION;
    *max_hostname_len   = DNS_MAX_HOSTNAME_LEN;
    *max_packet_size    = DNS_MAX_PACKET_SIZE;
    return sizeof member_offs / sizeof member_offs[0];
}

/* ---- fenced buffers ---------------------------------------------------- */

#define FENCE 64
#define FENCE_BYTE 0xA5

typedef struct Fenced {
    uint8_t *block; /* FENCE | size | FENCE  (plain)  or exactly `size` (sanitizer builds) */
    uint8_t *buf;
    size_t   size;
} Fenced;

#if defined(__has_feature)
#if __has_feature(address_sanitizer)
#define CDRV_EXACT 1
#endif
#endif
#ifdef CDRV_VALGRIND
#define CDRV_EXACT 1
#endif

static Fenced
fenced_new(size_t size)
{
    Fenced f;
    f.size = size;
#ifdef CDRV_EXACT
    f.block = malloc(size ? size : 1);
    f.buf   = f.block;
    memset(f.buf, 0x5C, size);
#else
    f.block = malloc(size + 2 * FENCE);
    memset(f.block, FENCE_BYTE, size + 2 * FENCE);
    f.buf = f.block + FENCE;
    memset(f.buf, 0x5C, size);
#endif
    return f;
}

/* returns 1 when a fence byte was overwritten */
static int
fenced_free(Fenced *f)
{
    int bad = 0;
#ifndef CDRV_EXACT
    size_t i;
    for (i = 0; i < FENCE; i++) {
        if (f->block[i] != FENCE_BYTE || f->block[FENCE + f->size + i] != FENCE_BYTE) {
            bad = 1;
        }
    }
#endif
    free(f->block);
    f->block = NULL;
    return bad;
}

/* ---- log --------------------------------------------------------------- */

typedef struct Run {
    const FnTable *t;
    ParsedPacket  *pp;
    const uint8_t *s;   /* script cursor */
    const uint8_t *end;
    uint8_t       *log;
    size_t         log_cap;
    size_t         log_len;
    int            overflow;
    /* iteration state */
    const uint8_t *cb_prog;  /* start of the callback programs of the current ITER */
    unsigned       cb_count; /* number of programs */
    unsigned       cb_calls; /* callbacks seen so far */
    int            edns;
    /* how the hook's `const CErr *err` variable is kept: 0 = a fresh NULL one per call; 1 = ONE variable for
     * the whole script, never reset and uninitialised at first (as the sample hook in c_hook.c does) */
    int            persist;
    const CErr    *perr;
} Run;

static void
lg(Run *r, const void *p, size_t n)
{
    if (r->log_len + n > r->log_cap) {
        r->overflow = 1;
        return;
    }
    memcpy(r->log + r->log_len, p, n);
    r->log_len += n;
}
static void lg8(Run *r, uint8_t v) { lg(r, &v, 1); }
static void lg16(Run *r, uint16_t v) { uint8_t b[2] = { (uint8_t) v, (uint8_t)(v >> 8) }; lg(r, b, 2); }
static void lg32(Run *r, uint32_t v) { uint8_t b[4] = { (uint8_t) v, (uint8_t)(v >> 8), (uint8_t)(v >> 16), (uint8_t)(v >> 24) }; lg(r, b, 4); }

static uint8_t  rd8(Run *r) { return r->s < r->end ? *r->s++ : 0; }
static uint16_t rd16(Run *r) { uint16_t a = rd8(r); return (uint16_t)(a | (rd8(r) << 8)); }
static uint32_t rd32(Run *r) { uint32_t a = rd16(r); return a | ((uint32_t) rd16(r) << 16); }
static const uint8_t *
rdn(Run *r, size_t n)
{
    const uint8_t *p = r->s;
    if ((size_t)(r->end - r->s) < n) {
        r->s = r->end;
        return p;
    }
    r->s += n;
    return p;
}

/* log the return code and, on -1, the retrievable description */
static void
lg_ret(Run *r, int ret, const CErr *err, int null_err)
{
    if (r->persist && null_err != 1) {
        r->perr = err; /* the variable keeps whatever the call left in it */
    }
    lg8(r, ret == 0 ? 0 : (ret == -1 ? 1 : 2));
    if (null_err == 1) {
        /* the hook passed err == NULL (as the sample hook does): nothing to retrieve */
        lg8(r, 0xfe);
        return;
    }
    /* The property promises "-1 and a retrievable NUL-terminated description": that is what is recorded (1 =
     * non-empty and terminated within 1024 bytes). The wording is the implementation's business: a wrapper may
     * well notice a different one of two simultaneous defects than the native call does. */
    {
        const char *d = (ret == -1 && err) ? r->t->error_description(err) : NULL;
        size_t      n = 0;
        if (d != NULL) {
            while (n < 1024 && d[n] != 0) {
                n++;
            }
        }
        if (ret == -1) {
            lg8(r, 0xfd);
            lg8(r, (d != NULL && n > 0 && n < 1024) ? 1 : 0);
        }
    }
}

/* ---- record-level ops (inside a callback) ------------------------------ */

static void
record_ops(Run *r, void *it, unsigned nops)
{
    unsigned i;
    for (i = 0; i < nops; i++) {
        uint8_t op = rd8(r);
        switch (op) {
        case 1: { /* NAME */
            Fenced f = fenced_new(DNS_MAX_HOSTNAME_LEN + 1);
            size_t n = 0;
            r->t->name(it, (char *) f.buf);
            while (n < DNS_MAX_HOSTNAME_LEN + 1 && f.buf[n] != 0) {
                n++;
            }
            lg8(r, 0x11);
            lg16(r, (uint16_t) n); /* 256 = no terminator inside the buffer */
            lg(r, f.buf, n);
            if (fenced_free(&f)) { lg8(r, 0xEE); lg8(r, op); }
            break;
        }
        case 2: lg8(r, 0x12); lg16(r, r->t->rr_type(it)); break;
        case 3: lg8(r, 0x13); lg16(r, r->t->rr_class(it)); break;
        case 4: lg8(r, 0x14); lg32(r, r->t->rr_ttl(it)); break;
        case 5: r->t->set_rr_ttl(it, rd32(r)); lg8(r, 0x15); break;
        case 6: { /* RR_IP cap */
            size_t cap = rd8(r);
            Fenced f   = fenced_new(cap);
            size_t len = cap;
            r->t->rr_ip(it, f.buf, &len);
            lg8(r, 0x16);
            lg8(r, (uint8_t) len);
            lg(r, f.buf, len <= cap ? len : cap);
            if (fenced_free(&f)) { lg8(r, 0xEE); lg8(r, op); }
            break;
        }
        case 7: { /* SET_RR_IP len bytes */
            size_t         len = rd8(r);
            const uint8_t *p   = rdn(r, len);
            Fenced         f   = fenced_new(len);
            memcpy(f.buf, p, len);
            r->t->set_rr_ip(it, f.buf, len);
            lg8(r, 0x17);
            if (fenced_free(&f)) { lg8(r, 0xEE); lg8(r, op); }
            break;
        }
        case 8: { /* SET_RAW_NAME nullerr len bytes */
            int            ne  = rd8(r);
            size_t         len = rd16(r);
            const uint8_t *p   = rdn(r, len);
            Fenced         f   = fenced_new(len);
            const CErr    *err = r->perr;
            int            ret;
            memcpy(f.buf, p, len);
            ret = r->t->set_raw_name(it, ne ? NULL : &err, f.buf, len);
            lg8(r, 0x18);
            lg_ret(r, ret, err, ne);
            if (fenced_free(&f)) { lg8(r, 0xEE); lg8(r, op); }
            break;
        }
        case 9: { /* SET_NAME nullerr nlen name zlen zone */
            int            fl   = rd8(r);
            int            ne   = fl & 0x7f;
            int            zptr = fl & 0x80; /* pass a non-NULL zone pointer even when the zone is empty */
            size_t         nlen = rd16(r);
            const uint8_t *n    = rdn(r, nlen);
            size_t         zlen = rd16(r);
            const uint8_t *z    = rdn(r, zlen);
            Fenced         fn   = fenced_new(nlen);
            Fenced         fz   = fenced_new(zlen);
            const CErr    *err  = r->perr;
            int            ret;
            memcpy(fn.buf, n, nlen);
            memcpy(fz.buf, z, zlen);
            ret = r->t->set_name(it, ne ? NULL : &err, (const char *) fn.buf, nlen, (zlen || zptr) ? fz.buf : NULL, zlen);
            lg8(r, 0x19);
            lg_ret(r, ret, err, ne);
            if (fenced_free(&fn) | fenced_free(&fz)) { lg8(r, 0xEE); lg8(r, op); }
            break;
        }
        case 10: { /* DELETE nullerr */
            int         ne  = rd8(r);
            const CErr *err = r->perr;
            int         ret = r->t->delete_rr(it, ne ? NULL : &err);
            lg8(r, 0x1a);
            lg_ret(r, ret, err, ne);
            break;
        }
        default:
            lg8(r, 0xEF);
            return;
        }
    }
}

static bool
callback(void *ctx, void *it)
{
    Run     *r   = ctx;
    unsigned idx = r->cb_calls++;
    lg8(r, 0x70);
    lg8(r, (uint8_t) idx);
    if (idx < r->cb_count) {
        /* find program idx: programs are [stop u8][nops u8][ops...] back to back; ops are self-delimiting */
        uint8_t  stop = rd8(r);
        unsigned nops = rd8(r);
        if (!r->edns) {
            record_ops(r, it, nops);
        }
        return stop != 0;
    }
    return false;
}

/* ---- top level ---------------------------------------------------------- */

int
cdrv_run(const FnTable *t, ParsedPacket *pp, const uint8_t *script, size_t script_len, uint8_t *log,
         size_t log_cap, size_t *log_len)
{
    Run r;
    memset(&r, 0, sizeof r);
    r.t       = t;
    r.pp      = pp;
    r.s       = script;
    r.end     = script + script_len;
    r.log     = log;
    r.log_cap = log_cap;
    for (;;) {
        uint8_t op = rd8(&r);
        if (op == 0) {
            break;
        }
        switch (op) {
        case 13: /* ERRMODE m */
            r.persist = rd8(&r);
            r.perr    = r.persist ? (const CErr *) (uintptr_t) 0x1 : NULL; /* "uninitialised": never to be read by the table */
            break;
        case 1: lg8(&r, 1); lg32(&r, t->flags(pp)); break;
        case 2: t->set_flags(pp, rd32(&r)); lg8(&r, 2); break;
        case 3: lg8(&r, 3); lg8(&r, t->rcode(pp)); break;
        case 4: t->set_rcode(pp, rd8(&r)); lg8(&r, 4); break;
        case 5: lg8(&r, 5); lg8(&r, t->opcode(pp)); break;
        case 6: t->set_opcode(pp, rd8(&r)); lg8(&r, 6); break;
        case 7: { /* ITER sec ncb, then programs consumed by the callbacks in order */
            uint8_t sec = rd8(&r);
            r.cb_count  = rd8(&r);
            r.cb_calls  = 0;
            r.edns      = sec == 3;
            lg8(&r, 7);
            lg8(&r, sec);
            switch (sec) {
            case 0: t->iter_answer(pp, callback, &r); break;
            case 1: t->iter_nameservers(pp, callback, &r); break;
            case 2: t->iter_additional(pp, callback, &r); break;
            default: t->iter_edns(pp, callback, &r); break;
            }
            lg8(&r, 0x7f);
            lg8(&r, (uint8_t) r.cb_calls);
            /* skip programs that no callback consumed */
            while (r.cb_calls < r.cb_count) {
                unsigned nops, i;
                (void) rd8(&r);
                nops = rd8(&r);
                for (i = 0; i < nops; i++) {
                    uint8_t o = rd8(&r);
                    switch (o) {
                    case 5: (void) rd32(&r); break;
                    case 6: (void) rd8(&r); break;
                    case 7: (void) rdn(&r, rd8(&r)); break;
                    case 8: (void) rd8(&r); (void) rdn(&r, rd16(&r)); break;
                    case 9: (void) rd8(&r); (void) rdn(&r, rd16(&r)); (void) rdn(&r, rd16(&r)); break;
                    case 10: (void) rd8(&r); break;
                    default: break;
                    }
                }
                r.cb_calls++;
            }
            break;
        }
        case 8: { /* ADD nullerr sec len bytes */
            int            ne  = rd8(&r);
            uint8_t        sec = rd8(&r);
            size_t         len = rd16(&r);
            const uint8_t *p   = rdn(&r, len);
            Fenced         f   = fenced_new(len + 1);
            const CErr    *err = r.perr;
            int            ret;
            memcpy(f.buf, p, len);
            f.buf[len] = 0;
            switch (sec) {
            case 0: ret = t->add_to_question(pp, ne == 1 ? NULL : &err, (const char *) f.buf); break;
            case 1: ret = t->add_to_answer(pp, ne == 1 ? NULL : &err, (const char *) f.buf); break;
            case 2: ret = t->add_to_nameservers(pp, ne == 1 ? NULL : &err, (const char *) f.buf); break;
            default: ret = t->add_to_additional(pp, ne == 1 ? NULL : &err, (const char *) f.buf); break;
            }
            lg8(&r, 8);
            lg_ret(&r, ret, err, ne);
            if (fenced_free(&f)) { lg8(&r, 0xEE); lg8(&r, op); }
            break;
        }
        case 9: { /* RAW_PACKET cap */
            size_t cap = rd32(&r);
            Fenced f   = fenced_new(cap);
            size_t len = 0xdddd;
            int    ret = t->raw_packet(pp, f.buf, &len, cap);
            lg8(&r, 9);
            lg8(&r, ret == 0 ? 0 : (ret == -1 ? 1 : 2));
            if (ret == 0) {
                lg16(&r, (uint16_t) len);
                lg(&r, f.buf, len <= cap ? len : cap);
            }
            if (fenced_free(&f)) { lg8(&r, 0xEE); lg8(&r, op); }
            break;
        }
        case 10: { /* QUESTION */
            Fenced   f     = fenced_new(DNS_MAX_HOSTNAME_LEN + 1);
            uint16_t qtype = 0xeeee;
            int      ret   = t->question(pp, (char *) f.buf, &qtype);
            size_t   n     = 0;
            while (n < DNS_MAX_HOSTNAME_LEN + 1 && f.buf[n] != 0) {
                n++;
            }
            lg8(&r, 10);
            lg8(&r, ret == 0 ? 0 : (ret == -1 ? 1 : 2));
            lg16(&r, (uint16_t) n);
            lg(&r, f.buf, n);
            lg16(&r, qtype);
            if (fenced_free(&f)) { lg8(&r, 0xEE); lg8(&r, op); }
            break;
        }
        case 11: { /* RENAME nullerr tlen t slen s suffix */
            int            ne   = rd8(&r);
            size_t         tlen = rd16(&r);
            const uint8_t *tn   = rdn(&r, tlen);
            size_t         slen = rd16(&r);
            const uint8_t *sn   = rdn(&r, slen);
            bool           suf  = rd8(&r) != 0;
            Fenced         ft   = fenced_new(tlen);
            Fenced         fs   = fenced_new(slen);
            const CErr    *err  = r.perr;
            int            ret;
            memcpy(ft.buf, tn, tlen);
            memcpy(fs.buf, sn, slen);
            ret = t->rename_with_raw_names(pp, ne ? NULL : &err, ft.buf, tlen, fs.buf, slen, suf);
            lg8(&r, 11);
            lg_ret(&r, ret, err, ne);
            if (fenced_free(&ft) | fenced_free(&fs)) { lg8(&r, 0xEE); lg8(&r, op); }
            break;
        }
        case 12: { /* RAW_NAME_FROM_STR nullerr len bytes */
            int            ne  = rd8(&r);
            size_t         len = rd16(&r);
            const uint8_t *p   = rdn(&r, len);
            Fenced         in  = fenced_new(len);
            Fenced         out = fenced_new(DNS_MAX_HOSTNAME_LEN + 1);
            size_t         raw_len = 0xdddd;
            const CErr    *err = r.perr;
            int            ret;
            memcpy(in.buf, p, len);
            ret = t->raw_name_from_str(out.buf, &raw_len, ne ? NULL : &err, (const char *) in.buf, len);
            lg8(&r, 12);
            lg_ret(&r, ret, err, ne);
            if (ret == 0) {
                lg16(&r, (uint16_t) raw_len);
                lg(&r, out.buf, raw_len <= DNS_MAX_HOSTNAME_LEN + 1 ? raw_len : DNS_MAX_HOSTNAME_LEN + 1);
            }
            if (fenced_free(&in) | fenced_free(&out)) { lg8(&r, 0xEE); lg8(&r, op); }
            break;
        }
        default:
            lg8(&r, 0xEF);
            goto done;
        }
    }
done:
    *log_len = r.log_len;
    return r.overflow ? -2 : 0;
}

// Compiles the C hook driver (cdriver/cdrv.c) against the header shipped with
// the library (/repo/src/bin/c_hook/c_hook.h) when DNSMON_CDRV is set to
// "plain" or "asan", and links it into the harness.
use std::env;
use std::path::PathBuf;
use std::process::Command;

fn main() {
    println!("cargo:rerun-if-env-changed=DNSMON_CDRV");
    println!("cargo:rerun-if-changed=cdriver/cdrv.c");
    println!("cargo:rerun-if-changed=/repo/src/bin/c_hook/c_hook.h");
    let mode = env::var("DNSMON_CDRV").unwrap_or_default();
    if mode.is_empty() || mode == "none" {
        return;
    }
    let out = PathBuf::from(env::var("OUT_DIR").unwrap());
    let obj = out.join("cdrv.o");
    let mut cmd = Command::new("clang");
    cmd.args(["-c", "-O1", "-gdwarf-4", "-fno-omit-frame-pointer", "-Wall", "-Werror=incompatible-pointer-types", "-Werror=int-conversion"]);
    cmd.arg("-I/repo/src/bin/c_hook");
    if mode == "asan" {
        cmd.arg("-fsanitize=address");
    }
    if mode == "vg" {
        cmd.arg("-DCDRV_VALGRIND");
    }
    cmd.arg("cdriver/cdrv.c").arg("-o").arg(&obj);
    let st = cmd.status().expect("clang not runnable");
    if !st.success() {
        panic!("compiling cdriver/cdrv.c against the shipped c_hook.h failed");
    }
    println!("cargo:rustc-link-arg={}", obj.display());
    println!("cargo:rustc-cfg=dnsmon_cdrv");
}

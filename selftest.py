"""./check selftest [--verify] [--jobs N] [name-or-property ...]

Sensitivity test of the monitors: every breaking change under /verif/mutants/*.patch (reverts of the
"fix:" commits) and /verif/seeded/*/patch.diff (independently written changes) is applied to a scratch copy
of /repo OUTSIDE /repo and /verif, the owning property's quick check is run against that copy, and must end
with exit status 1 and a VIOLATION line. --verify additionally checks that the changed tree still compiles
and passes the repository's own 46 tests. Scratch copies and their build output are removed afterwards.
"""
import json
import os
import shutil
import subprocess
import sys
import time
from concurrent.futures import ThreadPoolExecutor

VERIF = os.path.dirname(os.path.abspath(__file__))
SCRATCH = os.environ.get("DNSMON_SELFTEST_DIR", "/tmp/dnsmon-selftest")


def load_mutants():
    out = []
    meta_all = {}
    mp = os.path.join(VERIF, "mutants", "META.json")
    if os.path.exists(mp):
        meta_all = json.load(open(mp))
    mdir = os.path.join(VERIF, "mutants")
    for f in sorted(os.listdir(mdir)) if os.path.isdir(mdir) else []:
        if f.endswith(".patch"):
            name = f[:-6]
            m = meta_all.get(name, {})
            out.append({"name": name, "patch": os.path.join(mdir, f), "properties": m.get("properties", []),
                        "what": m.get("what", ""), "origin": "revert-of-fix"})
    bdir = os.path.join(VERIF, "benign")
    for d in sorted(os.listdir(bdir)) if os.path.isdir(bdir) else []:
        p = os.path.join(bdir, d, "patch.diff")
        mj = os.path.join(bdir, d, "meta.json")
        if os.path.exists(p) and os.path.exists(mj):
            m = json.load(open(mj))
            out.append({"name": d, "patch": p, "properties": m.get("checks") or [m["property"]],
                        "what": m.get("what", ""), "origin": "benign", "benign": True})
    sdir = os.path.join(VERIF, "seeded")
    for d in sorted(os.listdir(sdir)) if os.path.isdir(sdir) else []:
        p = os.path.join(sdir, d, "patch.diff")
        mj = os.path.join(sdir, d, "meta.json")
        if os.path.exists(p) and os.path.exists(mj):
            m = json.load(open(mj))
            out.append({"name": d, "patch": p, "properties": m.get("detected_by") or [m["property"]],
                        "what": m.get("what", ""), "origin": "seeded", "expect_miss": m.get("expect_miss", False)})
    return out


def run_one(slot, mut, verify, tier):
    root = os.path.join(SCRATCH, "slot%d" % slot)
    repo = os.path.join(root, "repo")
    os.makedirs(root, exist_ok=True)
    subprocess.check_call(["rsync", "-a", "--delete", "--exclude", "target", "--exclude", ".git", "/repo/", repo + "/"])
    r = subprocess.run(["patch", "-p1", "-s", "-d", repo, "-i", mut["patch"]], stdout=subprocess.PIPE, stderr=subprocess.STDOUT, text=True)
    res = {"name": mut["name"], "origin": mut["origin"], "results": {}}
    if r.returncode != 0:
        res["error"] = "patch does not apply: " + r.stdout[-300:]
        return res
    env = dict(os.environ)
    env["CARGO_NET_OFFLINE"] = "true"
    if verify:
        t = subprocess.run(["cargo", "test", "--offline", "--target-dir", os.path.join(root, "repo-target")], cwd=repo, env=env,
                           stdout=subprocess.PIPE, stderr=subprocess.STDOUT, text=True)
        oks = t.stdout.count("test result: ok")
        res["tests_pass"] = (t.returncode == 0 and oks >= 6)
        if not res["tests_pass"]:
            res["tests_tail"] = t.stdout[-600:]
    env["DNSMON_REPO"] = repo
    env["DNSMON_TARGET"] = os.path.join(root, "target")
    env["DNSMON_OUT"] = os.path.join(root, "out")
    for prop in mut["properties"]:
        t0 = time.time()
        c = subprocess.run([os.path.join(VERIF, "check"), prop, tier], env=env, stdout=subprocess.PIPE, stderr=subprocess.PIPE, text=True)
        viol = [l for l in c.stdout.splitlines() if l.startswith("VIOLATION property=%s" % prop)]
        sigs = [l.strip()[len("signature: "):] for l in c.stderr.splitlines() if l.strip().startswith("signature: ")]
        anyv = [l for l in c.stdout.splitlines() if l.startswith("VIOLATION")]
        ok = (c.returncode == 0 and not anyv) if mut.get("benign") else (c.returncode == 1 and len(viol) > 0)
        res["results"][prop] = {"exit": c.returncode, "violation_lines": len(anyv if mut.get("benign") else viol), "signatures": sigs[:6],
                                "detected": ok, "benign": bool(mut.get("benign")), "wall_s": round(time.time() - t0, 1),
                                "other": [l for l in c.stdout.splitlines() if l.startswith("INCONCLUSIVE")][:2]}
    return res


def selftest(argv):
    verify = "--verify" in argv
    tier = "quick"
    jobs = 2
    cross = False
    names = []
    it = iter(argv)
    for a in it:
        if a == "--jobs":
            jobs = int(next(it))
        elif a == "--verify":
            pass
        elif a == "--thorough":
            tier = "thorough"
        elif a == "--cross":
            cross = True
        else:
            names.append(a)
    muts = load_mutants()
    if names:
        muts = [m for m in muts if m["name"] in names or any(p in names for p in m["properties"])]
        # restrict to the named properties when properties were named
        props = [n for n in names if n.startswith("C") and len(n) == 3]
        if props:
            for m in muts:
                if m["name"] not in names:
                    m["properties"] = [p for p in m["properties"] if p in props]
    if cross:
        # every quick check against the selected (benign) changes, not only the owning property's:
        # used to look for false alarms; an alarm here still needs triage (a change that preserves
        # its own property may break another one)
        for m in muts:
            m["properties"] = ["C%02d" % i for i in range(1, 19)]
    muts = [m for m in muts if m["properties"]]
    if not muts:
        print("no mutants selected")
        return 2
    results = []
    slots = list(range(jobs))
    import queue
    q = queue.Queue()
    for s in slots:
        q.put(s)

    def work(m):
        s = q.get()
        try:
            return run_one(s, m, verify, tier)
        finally:
            q.put(s)

    with ThreadPoolExecutor(max_workers=jobs) as ex:
        for res in ex.map(work, muts):
            results.append(res)
            line = []
            for p, r in res.get("results", {}).items():
                if r.get("benign"):
                    line.append("%s:%s(%ss)" % (p, "SILENT" if r["detected"] else "FALSE-ALARM exit=%s %s %s" % (r["exit"], r["signatures"][:2], r["other"]), r["wall_s"]))
                else:
                    line.append("%s:%s(%ss)" % (p, "DETECTED" if r["detected"] else "MISSED exit=%s %s" % (r["exit"], r["other"]), r["wall_s"]))
            extra = ""
            if "error" in res:
                extra = " ERROR " + res["error"]
            if verify:
                extra += " tests_pass=%s" % res.get("tests_pass")
            print("%-44s %s%s" % (res["name"], " ".join(line), extra), flush=True)
    shutil.rmtree(SCRATCH, ignore_errors=True)
    missed = [(r["name"], p) for r in results for p, x in r.get("results", {}).items() if not x["detected"]]
    errors = [r["name"] for r in results if "error" in r]
    out = {"at": time.strftime("%Y-%m-%dT%H:%M:%SZ", time.gmtime()), "tier": tier, "results": results, "missed": missed, "errors": errors}
    json.dump(out, open(os.environ.get("DNSMON_SELFTEST_RESULTS", os.path.join(VERIF, "selftest_results.json")), "w"), indent=1)
    print("selftest: %d mutants, %d (mutant, property) pairs missed, %d errors" % (len(results), len(missed), len(errors)))
    return 0 if not missed and not errors else 1
